"""Dataset descriptors: a frame + write options incl. directory partitioning (used by C05-C09, C13, C14, C17)."""
import numpy as np
import pandas as pd

from . import frames as F
from . import options as O

BENIGN_PKINDS = ["pint", "pstr", "pcat", "pbool"]
ALL_PKINDS = ["pint", "pfloat", "pbool", "pdt", "pstr", "pstr_num", "pcat", "pcat_int", "pdate"]

PSTR_SIMPLE = ["a", "b", "c d", "zeta", "Ünï", "5%25", "%41", "A", "5%", "x%2Fy"]      # (texts that look percent-escaped are texts)
PSTR_NUM = ["1", "007", "1.0", "1e3", "True", "nan", "now", "-5", "0x10", "1_000", "NaN", "False", "inf", "2020-01-01", "1 day"]


def make_partition_column(col, n, seed):
    rng = F._rng(seed, col["name"])
    k = col["kind"]
    card = col.get("card", 3)
    nulls = F.null_mask(col.get("nulls", "none"), n, rng)
    if k == "pint":
        src = [0, 1, -3, 12, 2 ** 40, -1, 2 ** 53 + 1, -(2 ** 53) - 1, 2 ** 63 - 1, -(2 ** 63), 1577836800000000001,
               1577836800000000002, 2 ** 63 - 513, 10 ** 18 + 7, 255, 256]
        off = col.get("off", 0)
        pool = np.array([src[(off + i) % len(src)] for i in range(max(1, card))], dtype="int64")
        s = pd.Series(pool[rng.integers(0, len(pool), n)])
        if nulls.any():
            s = s.astype("float64")
            s[nulls] = np.nan
    elif k == "pfloat":
        src = [0.5, 1.0, -2.25, 1000.0, 1e-3, 3.0, 1e16, -0.0, 1e-7, 123456789.125, 2.5e20, 0.1]
        off = col.get("off", 0)
        pool = np.array([src[(off + i) % len(src)] for i in range(max(1, card))])
        pool = np.unique(pool)
        s = pd.Series(pool[rng.integers(0, len(pool), n)])
        s[nulls] = np.nan
    elif k == "pbool":
        s = pd.Series(rng.integers(0, 2, n).astype(bool))
    elif k == "pdt":
        pool = np.array(["2020-01-01T00:00:00", "2021-06-15T12:30:00", "1999-12-31T23:59:59", "2020-01-02T00:00:00"][:max(1, card)],
                        dtype="M8[ns]")
        s = pd.Series(pool[rng.integers(0, len(pool), n)])
        s[nulls] = pd.NaT
    elif k == "pdt_far":
        # microsecond timestamps, some of them outside what nanoseconds can hold (1677..2262)
        pool = np.array(["1600-01-01T00:00:00", "2021-03-04T05:06:07", "2262-04-12T00:00:00", "2500-01-01T00:00:00"][:max(2, card + 1)], dtype="M8[us]")
        s = pd.Series(pool[rng.integers(0, len(pool), n)])
    elif k == "pdate":
        pool = np.array(["2020-01-01", "2021-06-15", "1999-12-31"][:max(1, card)], dtype="M8[ns]")
        s = pd.Series(pool[rng.integers(0, len(pool), n)])
    elif k in ("pstr", "pstr_num"):
        src = PSTR_SIMPLE if k == "pstr" else PSTR_NUM
        off = col.get("off", 0)
        pool = [src[(off + i) % len(src)] for i in range(max(1, card))]
        arr = np.empty(n, dtype=object)
        arr[:] = [pool[i] for i in rng.integers(0, len(pool), n)]
        arr[nulls] = None
        s = pd.Series(arr, dtype=object)
    elif k == "pcat":
        labels = ["x", "y", "zed", "unused1", "unused2"][:max(2, card + 1)]
        codes = rng.integers(0, max(1, len(labels) - 1), n)
        codes[nulls] = -1
        s = pd.Series(pd.Categorical.from_codes(codes, categories=labels))
    elif k == "pcat_int":
        labels = [10, 20, 30, 40][:max(2, card + 1)]
        codes = rng.integers(0, max(1, len(labels) - 1), n)
        s = pd.Series(pd.Categorical.from_codes(codes, categories=labels))
    else:
        raise ValueError(k)
    s.name = col["name"]
    return s


def build_dataset_frame(desc):
    """desc['frame'] as in frames.build_frame but cols may include partition kinds."""
    fr = desc["frame"]
    n, seed = fr["nrows"], fr["seed"]
    data = {}
    for col in fr["cols"]:
        if col["kind"] == "rid":
            data[col["name"]] = pd.Series(np.arange(fr.get("rid0", 0), fr.get("rid0", 0) + n, dtype="int64"))
        elif col["kind"].startswith("p") and col["kind"] in ALL_PKINDS + ["pdt_far"]:
            data[col["name"]] = make_partition_column(col, n, seed)
        else:
            data[col["name"]] = F.make_column(col, n, seed)
    df = pd.DataFrame(data, columns=[c["name"] for c in fr["cols"]])
    df.index = F.make_index(fr.get("index"), n, seed)
    return df


VALUE_KINDS_SAFE = ["int32", "int64", "float64", "str", "ostr", "bool", "dt_ns", "dt_us", "cat_str", "Int64", "uint8", "float32",
                    "bytes", "dtz_ns", "td_us", "boolean", "cat_int", "Int16", "dt_ms"]


def random_dataset(rng, cid, scheme=None, n_part=None, pkinds=None, value_kinds=None, max_rows=300, max_cols=4,
                   partition_nulls=False, index_kinds=None, min_rows=0):
    pkinds = pkinds or BENIGN_PKINDS
    value_kinds = value_kinds or VALUE_KINDS_SAFE
    scheme = scheme or ["simple", "hive", "hive", "drill"][int(rng.integers(0, 4))]
    if n_part is None:
        n_part = 0 if scheme == "simple" else int(rng.integers(0, 3))
    n = int(rng.integers(min_rows, max_rows + 1))
    cols = [{"name": "rid", "kind": "rid"}]
    for j in range(int(rng.integers(1, max_cols + 1))):
        kind = value_kinds[int(rng.integers(0, len(value_kinds)))]
        col = {"name": "v%d" % j, "kind": kind,
               "nulls": F.NULL_PATTERNS[int(rng.integers(0, len(F.NULL_PATTERNS)))] if F.nullable_kind(kind) else "none",
               "vals": ["edge", "small"][int(rng.integers(0, 2))]}
        if kind in F.DTZ_KINDS:
            col["tz"] = F.TZS[int(rng.integers(0, len(F.TZS)))]
        cols.append(col)
    pcols = []
    for j in range(n_part):
        pk = pkinds[int(rng.integers(0, len(pkinds)))]
        pc = {"name": "p%d" % j, "kind": pk, "card": int(rng.integers(1, 4)), "off": int(rng.integers(0, 20))}
        if partition_nulls and rng.random() < 0.3 and pk not in ("pbool", "pdate", "pcat_int"):
            pc["nulls"] = ["first", "p50", "last"][int(rng.integers(0, 3))]
        pcols.append(pc)
    # partition columns interleaved at random positions
    for pc in pcols:
        cols.insert(int(rng.integers(1, len(cols) + 1)), pc)
    names = [c["name"] for c in cols]
    index_kinds = index_kinds if index_kinds is not None else [None, None, {"kind": "int", "name": "myidx"}, {"kind": "str", "name": "sidx"}]
    ix = index_kinds[int(rng.integers(0, len(index_kinds)))]
    opts = {"file_scheme": scheme, "row_group_offsets": O.row_group_offsets(rng, n),
            "compression": [None, "SNAPPY", "GZIP", "ZSTD"][int(rng.integers(0, 4))],
            "has_nulls": [True, True, "infer"][int(rng.integers(0, 3))],
            "stats": [True, "auto", False, True][int(rng.integers(0, 4))]}
    if pcols:
        opts["partition_on"] = [c["name"] for c in pcols]
    return {"id": cid, "frame": {"seed": int(rng.integers(0, 2 ** 31)), "nrows": n, "cols": cols, "index": ix},
            "opts": opts, "page_size": [None, None, 64, 1024][int(rng.integers(0, 4))], "dpv": int(rng.integers(1, 3))}
