"""Seeded DataFrame generator.  A frame is fully determined by its JSON descriptor.

descriptor = {"seed": int, "nrows": int, "cols": [ {"name","kind","nulls", ...} ], "index": {...}|None}
"""
import datetime
import math
import zlib

import numpy as np
import pandas as pd

INT_KINDS = ["int8", "int16", "int32", "int64", "uint8", "uint16", "uint32", "uint64"]
FLOAT_KINDS = ["float32", "float64"]
NULLABLE_KINDS = ["Int8", "Int16", "Int32", "Int64", "UInt8", "UInt16", "UInt32", "UInt64", "boolean"]
DT_UNITS = ["s", "ms", "us", "ns"]
DT_KINDS = ["dt_" + u for u in DT_UNITS]
DTZ_KINDS = ["dtz_" + u for u in DT_UNITS]
TD_KINDS = ["td_us", "td_ns", "td_s", "td_ms"]
TEXT_KINDS = ["str", "ostr", "bytes", "json"]
CAT_KINDS = ["cat_str", "cat_int", "cat_float", "cat_str_ord", "cat_many", "cat_bool"]
ALL_KINDS = (["bool"] + INT_KINDS + FLOAT_KINDS + TEXT_KINDS + DT_KINDS + DTZ_KINDS + TD_KINDS +
             CAT_KINDS + NULLABLE_KINDS)

NULL_PATTERNS = ["none", "first", "last", "firstlast", "alt", "p01", "p50", "p99", "all"]
BOUNDARY_ROWS = [0, 1, 2, 7, 8, 9, 63, 64, 65, 127, 128, 129]
BIG_ROWS = [8191, 8192, 8193]
TZS = ["UTC", "Europe/Berlin", "America/New_York", "+05:30", "-00:30", "-03:30", "+00:45", "-00:01"]

STR_POOL = ["", "a", "ab", "héllo", "日本語", "𝄞 clef", "x" * 300, "nan", "None", "0", " lead", "trail ",
            "tab\there", "new\nline", "quote\"s", "ÿ", "Ā", "z" * 17,
            # long values that differ only after a long common prefix (bounds must be whole values, not prefixes)
            "k" * 70 + "-0001", "k" * 70 + "-0002", "k" * 70 + "-0009", "é" * 40 + "-a", "é" * 40 + "-b"]
BYTES_POOL = [b"", b"\x00", b"\xff\xfe", b"abc", b"\x00" * 9, bytes(range(256)), b"PAR1", b"\x80",
              b"\x01" * 80 + b"a", b"\x01" * 80 + b"b", b"\xfe" * 65 + b"\x00", b"\xfe" * 65 + b"\x01"]
JSON_POOL = [[1, 2, 3], {"a": 1}, [], {}, {"k": [1, {"z": None}]}, [1.5, "s", True], {"é": "ü"}, [[]]]


def nullable_kind(kind):
    """Can a column of this kind hold a missing value at all?"""
    return not (kind == "bool" or kind in INT_KINDS)


def _rng(desc_seed, name):
    return np.random.default_rng([desc_seed & 0xFFFFFFFF, zlib.crc32(name.encode())])


def null_mask(pattern, n, rng):
    m = np.zeros(n, dtype=bool)
    if n == 0 or pattern == "none":
        return m
    if pattern == "first":
        m[0] = True
    elif pattern == "last":
        m[-1] = True
    elif pattern == "firstlast":
        m[0] = m[-1] = True
    elif pattern == "alt":
        m[::2] = True
    elif pattern == "all":
        m[:] = True
    elif pattern.startswith("p"):
        p = int(pattern[1:]) / 100.0
        m = rng.random(n) < p
    else:
        raise ValueError(pattern)
    return m


def _ints(dtype, n, rng, vals):
    info = np.iinfo(dtype)
    if vals == "small":
        return rng.integers(0, 5, n).astype(dtype)
    if vals == "equal":
        return np.full(n, 7 % (info.max + 1), dtype=dtype)
    edge = [info.min, info.max, 0, 1, info.max - 1, info.min + 1] + ([-1] if info.min < 0 else [])
    if info.bits == 64:
        # neighbours that float64 cannot tell apart
        edge += [2 ** 53 + 1, 2 ** 53 + 2, 2 ** 53] + ([-(2 ** 53) - 1] if info.min < 0 else [])
    out = rng.integers(info.min, info.max, n, dtype=dtype, endpoint=True)
    if n:
        k = min(n, len(edge))
        pos = rng.choice(n, k, replace=False)
        for p_, e_ in zip(pos, edge[:k]):
            out[p_] = e_
    return out


def _floats(dtype, n, rng, vals):
    fi = np.finfo(dtype)
    if vals == "small":
        return rng.integers(0, 5, n).astype(dtype)
    edge = np.array([0.0, -0.0, np.inf, -np.inf, fi.max, fi.min, fi.tiny, fi.smallest_subnormal, 1.5, -1.5], dtype=dtype)
    out = (rng.standard_normal(n) * 1e3).astype(dtype)
    if n:
        k = min(n, len(edge))
        pos = rng.choice(n, k, replace=False)
        out[pos] = edge[:k]
    return out


DT_RANGE = {  # epoch range (inclusive) per unit staying inside 1678..2261 so that every conversion fits int64 ns
    "s": (-9214560000, 9214560000), "ms": (-9214560000000, 9214560000000),
    "us": (-9214560000000000, 9214560000000000), "ns": (-9214560000000000000, 9214560000000000000),
}


def _dt_ints(unit, n, rng, vals):
    lo, hi = DT_RANGE[unit]
    if vals == "small":
        return rng.integers(0, 5, n).astype("int64")
    out = rng.integers(lo, hi, n, dtype="int64")
    edge = np.array([0, -1, 1, lo, hi, 86400, -86400], dtype="int64")
    if n:
        k = min(n, len(edge))
        pos = rng.choice(n, k, replace=False)
        out[pos] = edge[:k]
    return out


def _tz(z):
    if ":" in z:
        sign = -1 if z.startswith("-") else 1
        h, m = z.lstrip("+-").split(":")
        return datetime.timezone(sign * datetime.timedelta(hours=int(h), minutes=int(m)))
    return z


def _pool(pool, n, rng, vals, extra=None):
    if vals == "huge":      # values of several thousand bytes that differ only at their end (and one of exactly 4096)
        cand = ["h" * 5000 + "-a", "h" * 5000 + "-b", "g" * 4097, "z" * 4096, "h" * 4999]
        cand = [c.encode() for c in cand] if pool and isinstance(pool[0], bytes) else cand
        return [cand[i] for i in rng.integers(0, len(cand), n)]
    if vals == "long":      # only values longer than 64 bytes (many of them sharing a long prefix)
        cand = [x for x in pool if len(x if isinstance(x, bytes) else x.encode("utf8")) > 64] or list(pool)
        return [cand[i] for i in rng.integers(0, len(cand), n)]
    if vals == "small":
        idx = rng.integers(0, min(3, len(pool)), n)
    else:
        idx = rng.integers(0, len(pool), n)
    out = [pool[i] for i in idx]
    if extra is not None and vals != "small":
        for i in range(n):
            if rng.random() < 0.3:
                out[i] = extra(rng)
    return out


def _rand_str(rng):
    k = int(rng.integers(0, 12))
    return "".join(chr(int(c)) for c in rng.integers(32, 0x250, k))


def _rand_bytes(rng):
    return bytes(rng.integers(0, 256, int(rng.integers(0, 12)), dtype="uint8"))


def make_column(col, n, seed):
    """Return a pandas Series for column descriptor `col`."""
    kind, name = col["kind"], col["name"]
    rng = _rng(seed, name)
    vals = col.get("vals", "edge")
    pattern = col.get("nulls", "none")
    mask = null_mask(pattern, n, rng)
    if not nullable_kind(kind):
        mask[:] = False
    if kind == "bool":
        s = pd.Series(rng.integers(0, 2, n).astype(bool))
    elif kind in INT_KINDS:
        s = pd.Series(_ints(np.dtype(kind), n, rng, vals))
    elif kind in FLOAT_KINDS:
        a = _floats(np.dtype(kind), n, rng, vals)
        a[mask] = np.nan
        s = pd.Series(a)
    elif kind in NULLABLE_KINDS:
        if kind == "boolean":
            a = rng.integers(0, 2, n).astype(bool)
        else:
            a = _ints(np.dtype(kind.lower()), n, rng, vals)
        s = pd.Series(pd.array(a, dtype=kind))
        if mask.any():
            s[mask] = pd.NA
    elif kind in ("str", "ostr"):
        v = _pool(STR_POOL, n, rng, vals, _rand_str)
        arr = np.empty(n, dtype=object)
        arr[:] = v
        arr[mask] = None
        if kind == "str":
            s = pd.Series(arr, dtype="str")
        else:
            s = pd.Series(arr, dtype=object)
    elif kind == "bytes":
        v = _pool(BYTES_POOL, n, rng, vals, _rand_bytes)
        arr = np.empty(n, dtype=object)
        arr[:] = v
        arr[mask] = None
        s = pd.Series(arr, dtype=object)
    elif kind == "json":
        # "lists": values of one shape, which Python can order (not in the byte order of their serialised form)
        v = _pool(JSON_POOL, n, rng, vals) if vals != "lists" else [[[10], [9], [1, 2], [2], [100, 1], [], [9, 9]][i] for i in rng.integers(0, 7, n)]
        arr = np.empty(n, dtype=object)
        for i in range(n):
            arr[i] = v[i]
        arr[mask] = None
        s = pd.Series(arr, dtype=object)
    elif kind in DT_KINDS or kind in DTZ_KINDS:
        unit = kind.split("_")[1]
        a = _dt_ints(unit, n, rng, vals).view("M8[%s]" % unit).copy()
        a[mask] = np.datetime64("NaT")
        s = pd.Series(a)
        if kind in DTZ_KINDS:
            s = s.dt.tz_localize("UTC").dt.tz_convert(_tz(col.get("tz", "UTC")))
    elif kind in TD_KINDS:
        unit = kind.split("_")[1]
        lim = 86400 * 1000 * {"s": 1, "ms": 10 ** 3}.get(unit, 10 ** 6)
        a = rng.integers(-lim, lim, n, dtype="int64") if vals != "small" else rng.integers(0, 5, n).astype("int64")
        if unit == "ns":
            a = a * 1000
        a = a.view("m8[%s]" % unit).copy()
        a[mask] = np.timedelta64("NaT")
        s = pd.Series(a)
    elif kind in CAT_KINDS:
        ncat = col.get("ncat", 5)
        if kind == "cat_many":
            ncat = col.get("ncat", 300)
            labels = ["L%05d" % i for i in range(ncat)]
        elif kind in ("cat_str", "cat_str_ord"):
            base = ["pear", "apple", "Zebra", "", "héllo", "日本", "10", "9", "b", "a"]
            sh = col.get("lshift", 0)
            labels = [base[(i + sh) % len(base)] + ("" if i < len(base) else "_%d" % i) for i in range(ncat)]
        elif kind == "cat_bool":
            labels = [[False, True], [True, False], [True]][(seed + ncat) % 3]
        elif kind == "cat_int":
            labels = [int(x) for x in ((np.arange(ncat) + col.get("lshift", 0)) * 7919 % 1000 - 500)]
            labels = list(dict.fromkeys(labels))
        else:
            labels = [float(x) for x in (np.arange(ncat) * 0.75 - 1.5)][::-1]
        nlab = len(labels)
        used = max(1, nlab - col.get("unused", 1)) if nlab else 0
        codes = rng.integers(0, used, n).astype("int64") if used else np.full(n, -1)
        codes[mask] = -1
        s = pd.Series(pd.Categorical.from_codes(codes, categories=pd.Index(labels),
                                                ordered=(kind == "cat_str_ord" or col.get("ordered", False))))
    else:
        raise ValueError(kind)
    s.name = name
    return s


def make_index(ix, n, seed):
    if ix is None or ix.get("kind") == "range0":
        return pd.RangeIndex(n)
    rng = _rng(seed, "__index__")
    k = ix["kind"]
    name = ix.get("name")
    if k == "range":
        return pd.RangeIndex(ix.get("start", 5), ix.get("start", 5) + n * ix.get("step", 2), ix.get("step", 2), name=name)
    if k == "int":
        return pd.Index(rng.permutation(n).astype("int64") * 3 - 7, name=name)
    if k == "str":
        return pd.Index(["r%05d" % i for i in rng.permutation(n)], dtype=object, name=name)
    if k == "float":
        return pd.Index(rng.permutation(n).astype("float64") / 4.0, name=name)
    if k == "dt":
        return pd.DatetimeIndex((rng.permutation(n).astype("int64") * 86400 * 10 ** 9).view("M8[ns]"), name=name)
    if k == "dtz":
        return pd.DatetimeIndex((rng.permutation(n).astype("int64") * 3600 * 10 ** 9).view("M8[ns]"), name=name
                                ).tz_localize("UTC").tz_convert("Europe/Berlin")
    if k == "td":       # elapsed times of second resolution
        return pd.Index((rng.permutation(n).astype("int64") * 90 - 3600).view("m8[s]"), name=name)
    if k == "dup":      # repeated labels, as pd.concat without ignore_index leaves them
        return pd.Index(np.arange(n, dtype="int64") % max(1, (n + 1) // 2), name=name)
    if k == "dup_str":
        return pd.Index(["k%d" % (i % 3) for i in range(n)], dtype=object, name=name)
    if k in ("cat", "cat_null"):
        # a categorical row index (labels not in sorted order; "cat_null": with missing entries)
        labels = ["m", "z", "a", "k"]
        vals = [labels[int(c)] for c in rng.integers(0, 4, n)]
        if k == "cat_null":
            vals = [None if i % 3 == 1 else v for i, v in enumerate(vals)]
        return pd.CategoricalIndex(vals, categories=labels, name=name)
    if k == "multi_null":
        # a level with missing entries
        a = [None if i % 4 == 2 else "g%d" % (i % 3) for i in range(n)]
        return pd.MultiIndex.from_arrays([a, rng.permutation(n)], names=ix.get("names", ["la", "lb"]))
    if k == "multi":
        a = rng.integers(0, 3, n)
        b = rng.permutation(n)
        return pd.MultiIndex.from_arrays([a, ["s%d" % i for i in b]], names=ix.get("names", ["la", "lb"]))
    raise ValueError(k)


def build_frame(desc):
    n = desc["nrows"]
    seed = desc["seed"]
    data = {}
    for col in desc["cols"]:
        if col["kind"] == "rid":
            data[col["name"]] = pd.Series(np.arange(desc.get("rid0", 0), desc.get("rid0", 0) + n, dtype="int64"))
        else:
            data[col["name"]] = make_column(col, n, seed)
    df = pd.DataFrame(data, columns=[c["name"] for c in desc["cols"]]) if data else pd.DataFrame(index=range(n))
    ix = make_index(desc.get("index"), n, seed)
    df.index = ix
    return df
