"""Spec-level file recipes for the refpq writer (C03, C12, C15, C17).  A recipe is a small JSON dict; make_spec() materialises it."""
import struct

import numpy as np

# (name, ptype, converted, logical, type_length) ; expected pandas-side family
FLAT_TYPES = [
    ("bool", "BOOLEAN", None, None, None),
    ("i32", "INT32", None, None, None),
    ("i8", "INT32", 15, None, None), ("i16", "INT32", 16, None, None), ("i32c", "INT32", 17, None, None),
    ("u8", "INT32", 11, None, None), ("u16", "INT32", 12, None, None), ("u32", "INT32", 13, None, None),
    ("date", "INT32", 6, None, None), ("time_ms", "INT32", 7, None, None),
    ("i64", "INT64", None, None, None), ("i64c", "INT64", 18, None, None), ("u64", "INT64", 14, None, None),
    ("ts_ms", "INT64", 9, None, None), ("ts_us", "INT64", 10, None, None), ("time_us", "INT64", 8, None, None),
    ("ts_ns_l", "INT64", None, {"TIMESTAMP": {"isAdjustedToUTC": False, "unit": {"NANOS": {}}}}, None),
    ("ts_us_l", "INT64", 10, {"TIMESTAMP": {"isAdjustedToUTC": True, "unit": {"MICROS": {}}}}, None),
    ("ts_ms_l", "INT64", 9, {"TIMESTAMP": {"isAdjustedToUTC": False, "unit": {"MILLIS": {}}}}, None),
    ("i96", "INT96", None, None, None),
    ("f32", "FLOAT", None, None, None), ("f64", "DOUBLE", None, None, None),
    ("bytes", "BYTE_ARRAY", None, None, None), ("utf8", "BYTE_ARRAY", 0, None, None),
    ("flba", "FIXED_LEN_BYTE_ARRAY", None, None, 5),
    # DECIMAL (converted type 5) over every physical type the format allows; (precision, scale) in DECIMALS
    ("dec_i32", "INT32", 5, None, None), ("dec_i64", "INT64", 5, None, None),
    ("dec_f2", "FIXED_LEN_BYTE_ARRAY", 5, None, 2), ("dec_f5", "FIXED_LEN_BYTE_ARRAY", 5, None, 5),
    ("dec_f8", "FIXED_LEN_BYTE_ARRAY", 5, None, 8), ("dec_f12", "FIXED_LEN_BYTE_ARRAY", 5, None, 12),
    ("dec_ba", "BYTE_ARRAY", 5, None, None),        # unscaled value as big-endian two's complement of minimal length
]
DECIMALS = {"dec_i32": (9, 2), "dec_i64": (18, 3), "dec_f2": (4, 2), "dec_f5": (11, 4), "dec_f8": (18, 1), "dec_f12": (28, 6), "dec_ba": (15, 2)}


def _dec_unscaled(tname, v):
    """Unscaled integer of a stored DECIMAL value."""
    return int(v) if not isinstance(v, (bytes, bytearray)) else int.from_bytes(v, "big", signed=True)
TYPE_BY_NAME = {t[0]: t for t in FLAT_TYPES}
CODECS = ["UNCOMPRESSED", "SNAPPY", "GZIP", "ZSTD", "LZ4_RAW", "BROTLI"]
NULL_PATTERNS = ["none", "first", "last", "alt", "p20", "p80", "all", "runs"]


def _mask(pattern, n, rng):
    m = np.zeros(n, dtype=bool)
    if n == 0 or pattern == "none":
        return m
    if pattern == "first":
        m[0] = True
    elif pattern == "last":
        m[-1] = True
    elif pattern == "alt":
        m[::2] = True
    elif pattern == "all":
        m[:] = True
    elif pattern == "runs":
        i = 0
        while i < n:
            ln = int(rng.integers(1, 40))
            if rng.random() < 0.4:
                m[i:i + ln] = True
            i += ln
    else:
        m = rng.random(n) < int(pattern[1:]) / 100.0
    return m


def gen_values(tname, n, rng, distinct=None):
    """Physical values for n non-null cells.  distinct = number of distinct values wanted (for dictionary width)."""
    t = TYPE_BY_NAME[tname]
    ptype, conv = t[1], t[2]
    if tname in DECIMALS and (distinct is None or distinct <= 0):
        prec, scale = DECIMALS[tname]
        lim = 10 ** prec - 1
        ints = [int(x) for x in rng.integers(-min(lim, 2 ** 62), min(lim, 2 ** 62), n, endpoint=True)]
        for i, e in enumerate([-1, 0, 1, -lim, lim, -256, 255]):
            if i < n:
                ints[i] = e
        if ptype in ("INT32", "INT64"):
            return ints
        if t[4] is None:
            return [int(x).to_bytes(max(1, (int(x).bit_length() + 8) // 8), "big", signed=True) for x in ints]
        return [int(x).to_bytes(t[4], "big", signed=True) for x in ints]
    if distinct is not None and distinct > 0:
        base = gen_values(tname, distinct, rng)
        # make them distinct
        seen = []
        keyset = set()
        for i, v in enumerate(base):
            k = v if not isinstance(v, float) else struct.pack("<d", v)
            if k in keyset:
                continue
            keyset.add(k)
            seen.append(v)
        if not seen:
            seen = base[:1]
        idx = rng.integers(0, len(seen), n)
        # high codes used sparsely, low codes in runs
        out = [seen[i] for i in idx]
        return out
    if ptype == "BOOLEAN":
        return [bool(x) for x in rng.integers(0, 2, n)]
    if ptype == "INT32":
        lo, hi = {15: (-128, 127), 16: (-32768, 32767), 11: (0, 255), 12: (0, 65535), 6: (-20000, 60000), 7: (0, 86399999)}.get(conv, (-2 ** 31, 2 ** 31 - 1))
        vals = rng.integers(lo, hi, n, endpoint=True).tolist()
        if conv == 13:       # UINT_32 stored as int32 bit pattern
            vals = [int(x) - (1 << 32) if int(x) >= (1 << 31) else int(x) for x in rng.integers(0, 2 ** 32 - 1, n, dtype="uint64", endpoint=True)]
        for i, e in enumerate([lo, hi, 0]):
            if i < n and conv != 13:
                vals[i] = e
        return [int(v) for v in vals]
    if ptype == "INT64":
        if conv in (9,) or tname == "ts_ms_l":
            lo, hi = -9214560000000, 9214560000000
        elif conv in (10,) :
            lo, hi = -9214560000000000, 9214560000000000
        elif tname == "ts_ns_l":
            lo, hi = -9214560000000000000, 9214560000000000000
        elif conv == 8:
            lo, hi = 0, 86399999999
        else:
            lo, hi = -2 ** 63, 2 ** 63 - 1
        vals = [int(x) for x in rng.integers(lo, hi, n, dtype="int64", endpoint=True)]
        for i, e in enumerate([lo, hi, 0, -1]):
            if i < n and lo <= e <= hi:
                vals[i] = e
        return vals
    if ptype == "INT96":
        out = []
        for _ in range(n):
            day = int(rng.integers(2440588 - 100000, 2440588 + 100000))
            ns = int(rng.integers(0, 86400 * 10 ** 9))
            out.append(struct.pack("<qi", ns, day))
        return out
    if ptype == "FLOAT":
        vals = (rng.standard_normal(n) * 100).astype("f4")
        for i, e in enumerate([0.0, -0.0, np.inf, -np.inf, np.float32(1e-40)]):
            if i < n:
                vals[i] = e
        return [float(v) for v in vals]
    if ptype == "DOUBLE":
        vals = rng.standard_normal(n) * 1e6
        for i, e in enumerate([0.0, -0.0, np.inf, -np.inf, 5e-324, 1.7976931348623157e308]):
            if i < n:
                vals[i] = e
        return [float(v) for v in vals]
    if ptype == "BYTE_ARRAY":
        out = []
        for i in range(n):
            ln = int([0, 1, 3, 10, 40][int(rng.integers(0, 5))])
            if conv == 0:
                pool = "abcXYZ éü日本𝄞"
                out.append("".join(pool[int(c)] for c in rng.integers(0, len(pool), ln)).encode("utf8"))
            else:
                out.append(bytes(rng.integers(0, 256, ln, dtype="uint8")))
        return out
    if ptype == "FIXED_LEN_BYTE_ARRAY":
        # (last byte never NUL here: numpy 'S' dtypes cannot represent trailing NULs - probed separately, see recipes.flba_trailing_nul)
        return [bytes(rng.integers(0, 256, 4, dtype="uint8")) + bytes([int(rng.integers(1, 256))]) for _ in range(n)]
    raise ValueError(tname)


def random_recipe(rng, flat=True, thin=False):
    n_rg = int(rng.integers(1, 5))
    rgs = [int(rng.integers(0 if n_rg > 1 else 1, 120)) * (8 if rng.random() < 0.15 else 1) for _ in range(n_rg)]
    if sum(rgs) == 0:
        rgs[0] = 5
    cols = []
    for j in range(int(rng.integers(1, 5))):
        t = FLAT_TYPES[int(rng.integers(0, len(FLAT_TYPES)))]
        enc = "PLAIN"
        use_dict = bool(rng.random() < 0.45) and t[1] not in ("BOOLEAN",)
        if t[1] == "BOOLEAN" and rng.random() < 0.4:
            enc = "RLE"
        if t[1] in ("INT32", "INT64") and not use_dict and rng.random() < 0.3:
            enc = "DELTA_BINARY_PACKED"
        cols.append({"name": "c%d" % j, "type": t[0], "optional": bool(rng.random() < 0.6), "nulls": NULL_PATTERNS[int(rng.integers(0, len(NULL_PATTERNS)))],
                     "use_dict": use_dict, "distinct": int([1, 2, 3, 9, 40, 130, 200, 255, 300, 5000][int(rng.integers(0, 10))]) if use_dict else None,
                     "dict_extra": int([0, 0, 0, 200, 70000][int(rng.integers(0, 5))]) if use_dict and rng.random() < 0.3 else 0,
                     "dict_fallback_page": int(rng.integers(1, 3)) if use_dict and rng.random() < 0.25 else None,
                     "dict_encoding_id": [2, 8][int(rng.integers(0, 2))], "encoding": enc,
                     "page_rows": [int(x) for x in rng.integers(1, 90, 3)] if rng.random() < 0.7 else [10 ** 9],
                     "page_version": [1, 2, [1, 2]][int(rng.integers(0, 3))],
                     "def_plan": ["rle", "bp", "mixed"][int(rng.integers(0, 3))], "idx_plan": ["bp", "rle", "mixed"][int(rng.integers(0, 3))],
                     "v2_compressed": [True, False, None][int(rng.integers(0, 3))],
                     "delta_shape": [(128, 4), (256, 8), (1024, 32)][int(rng.integers(0, 3))],
                     "delta_bits": int(rng.integers(0, 29)),
                     "write_stats": bool(rng.random() < 0.6)})
        if cols[-1]["write_stats"] and j % 2:
            cols[-1]["omit_null_count"] = True       # min/max without a null count (the field is optional)
    return {"seed": int(rng.integers(0, 2 ** 31)), "flat": True, "row_groups": rgs, "codec": CODECS[int(rng.integers(0, len(CODECS)))], "columns": cols}


def make_spec(recipe):
    """Materialise a recipe -> (spec for vf.ref.writer.build_file, expected {column: list of canonical cells})."""
    rng = np.random.default_rng([recipe["seed"], 33])
    total = sum(recipe["row_groups"])
    cols = []
    expected = {}
    for rc in recipe["columns"]:
        t = TYPE_BY_NAME[rc["type"]]
        mask = _mask(rc["nulls"], total, rng) if rc.get("optional") else np.zeros(total, dtype=bool)
        nn = int((~mask).sum())
        if rc.get("encoding") == "DELTA_BINARY_PACKED" and not rc.get("use_dict"):
            vals = delta_values(t[1], nn, rng, rc.get("delta_bits", 8), value_range(rc["type"]))
        else:
            vals = gen_values(rc["type"], nn, rng, rc.get("distinct"))
        it = iter(vals)
        rows = [None if m else next(it) for m in mask]
        cs = {"name": rc["name"], "ptype": t[1], "converted": t[2], "logical": t[3], "type_length": t[4], "optional": bool(rc.get("optional")), "rows": rows}
        if rc["type"] in DECIMALS:
            cs["precision"], cs["scale"] = DECIMALS[rc["type"]]
        for k in ("use_dict", "dict_fallback_page", "dict_encoding_id", "encoding", "page_rows", "page_version", "def_plan", "idx_plan", "v2_compressed",
                  "delta_shape", "write_stats", "dict_extra", "v1_trailing", "min_index_width", "dict_when_empty", "omit_null_count"):
            if k in rc and rc[k] is not None:
                cs[k] = rc[k]
        if cs.get("dict_extra"):
            cs["dict_filler"] = filler_for(t)
        cols.append(cs)
        expected[rc["name"]] = [expected_cell(rc["type"], v) for v in rows]
    spec = {"codec": recipe.get("codec", "UNCOMPRESSED"), "columns": cols, "row_groups": list(recipe["row_groups"]),
            "created_by": recipe.get("created_by", "refpq spec-level writer 1.0")}
    if recipe.get("kv"):
        spec["kv"] = [tuple(x) for x in recipe["kv"]]
    if recipe.get("pandas_units"):
        # pandas metadata as pyarrow / fastparquet attach it: the frame's resolution may be finer than the stored one, the reader must rescale
        import json
        pcols = []
        for rc in recipe["columns"]:
            u = recipe["pandas_units"].get(rc["name"])
            if u == "omit":
                continue        # (a column the pandas metadata does not list, e.g. an unnamed index as arrow records it)
            if u is None:
                if rc["type"] == "f64":
                    pcols.append({"name": rc["name"], "field_name": rc["name"], "pandas_type": "float64", "numpy_type": "float64", "metadata": None})
                continue
            td = rc["type"].startswith("time_")
            pcols.append({"name": rc["name"], "field_name": rc["name"], "pandas_type": "timedelta" if td else "datetime",
                          "numpy_type": ("timedelta64[%s]" if td else "datetime64[%s]") % u, "metadata": None})
        spec["kv"] = [("pandas", json.dumps({"index_columns": [], "column_indexes": [], "columns": pcols, "pandas_version": "2.1.0",
                                             "creator": {"library": "refpq", "version": "1.0"}}))]
    return spec, expected


def filler_for(t):
    ptype = t[1]
    if ptype in ("INT32",):
        return lambda i: (1000003 + i) % (2 ** 31 - 1) if t[2] not in (15, 16, 11, 12) else i % 100
    if ptype == "INT64":
        return lambda i: 10 ** 12 + i
    if ptype == "FLOAT":
        return lambda i: float(np.float32(0.5 + i))
    if ptype == "DOUBLE":
        return lambda i: 0.25 + i
    if ptype == "BYTE_ARRAY":
        return lambda i: ("filler-%d" % i).encode()
    if ptype == "FIXED_LEN_BYTE_ARRAY":
        if t[4] != 5:
            return lambda i: (i % (256 ** min(t[4], 4))).to_bytes(t[4], "big")
        return lambda i: struct.pack("<I", i) + b"\x01"
    if ptype == "INT96":
        return lambda i: struct.pack("<qi", i, 2440588)
    return lambda i: bool(i & 1)


def value_range(tname):
    t = TYPE_BY_NAME[tname]
    conv = t[2]
    if t[1] == "INT32":
        return {15: (-128, 127), 16: (-32768, 32767), 11: (0, 255), 12: (0, 65535), 6: (-20000, 60000), 7: (0, 86399999)}.get(conv, (-2 ** 31, 2 ** 31 - 1))
    if tname in ("ts_ms", "ts_ms_l"):
        return (-9214560000000, 9214560000000)
    if tname in ("ts_us", "ts_us_l"):
        return (-9214560000000000, 9214560000000000)
    if tname == "ts_ns_l":
        return (-9214560000000000000, 9214560000000000000)
    if tname == "time_us":
        return (0, 86399999999)
    return (-2 ** 63, 2 ** 63 - 1)


def delta_values(ptype, n, rng, bits, rng_lohi=None):
    """Values whose deltas need about `bits` bits, kept inside [lo, hi] of the logical type."""
    width = 32 if ptype == "INT32" else 64
    lo, hi = rng_lohi or (-(1 << (width - 1)), (1 << (width - 1)) - 1)
    span = min((1 << bits) - 1 if bits else 0, hi - lo)
    vals = []
    cur = int(rng.integers(max(lo, -1000), min(hi, 1000), endpoint=True))
    for i in range(n):
        vals.append(cur)
        step = (int(rng.integers(0, 2 ** 62)) * 4 + int(rng.integers(0, 4))) % (span + 1) if span else 0
        if i == 0 and span:
            step = span
        if rng.random() < 0.5:
            step = -step
        nxt = cur + step
        if nxt > hi or nxt < lo:
            nxt = cur - step
        if nxt > hi or nxt < lo:
            nxt = cur
        cur = nxt
    return vals


def expected_cell(tname, v):
    """Canonical logical cell as vf.mon.tables.canon_series would produce it for a faithful read (times in ns)."""
    if v is None:
        return None
    t = TYPE_BY_NAME[tname]
    ptype, conv = t[1], t[2]
    if tname in DECIMALS:
        # fastparquet's documented reading of DECIMAL: float64 = unscaled * 10**-scale
        f = _dec_unscaled(tname, v) * (10 ** -DECIMALS[tname][1])
        return ("f8", struct.unpack("<Q", struct.pack("<d", f))[0])
    if ptype == "BOOLEAN":
        return ("b", bool(v))
    if ptype == "INT96":
        ns, day = struct.unpack("<qi", v)
        return ("t", (day - 2440588) * 86400 * 10 ** 9 + ns)
    if tname in ("ts_ms", "ts_ms_l"):
        return ("t", v * 10 ** 6)
    if tname in ("ts_us", "ts_us_l"):
        return ("t", v * 10 ** 3)
    if tname == "ts_ns_l":
        return ("t", v)
    if tname == "date":
        return ("t", v * 86400 * 10 ** 9)
    if tname == "time_ms":
        return ("d", v * 10 ** 6)
    if tname == "time_us":
        return ("d", v * 10 ** 3)
    if tname in ("u8", "u16", "u32"):
        return v & 0xFFFFFFFF
    if tname == "u64":
        return v & 0xFFFFFFFFFFFFFFFF
    if ptype in ("INT32", "INT64"):
        return int(v)
    if ptype == "FLOAT":
        if v != v:
            return None
        return ("f4", struct.unpack("<I", struct.pack("<f", v))[0])
    if ptype == "DOUBLE":
        if v != v:
            return None
        return ("f8", struct.unpack("<Q", struct.pack("<d", v))[0])
    if tname == "utf8":
        return ("s", v.decode("utf8"))
    return ("y", bytes(v))


def got_cells(series):
    """canon_series of fastparquet's output, normalised to the same forms (times -> ns, fixed bytes -> ('y', ...))."""
    from vf.mon import tables as T
    vals, tag = T.canon_series(series)
    mult = {"ts": 10 ** 9, "tms": 10 ** 6, "tus": 10 ** 3, "tns": 1}
    out = []
    for v in vals:
        if isinstance(v, tuple) and v[0] in mult:
            out.append(("t", v[1] * mult[v[0]]))
        else:
            out.append(v)
    return out, tag


def write_recipe(recipe, path):
    """Materialise and write; returns (expected cells per column, footer dict)."""
    from vf.ref import writer as W
    spec, expected = make_spec(recipe)
    data, fmd = W.build_file(spec)
    with open(path, "wb") as f:
        f.write(data)
    return expected, fmd
