"""IDL-driven generator of Thrift values (typed trees) for C10."""
import numpy as np

STR_LENS = [0, 1, 5, 127, 128, 300]
LIST_LENS = [0, 1, 2, 14, 15, 16]


def gen_value(rng, idl, sname, depth=0, opts=None):
    """Random typed tree for struct `sname`.  opts: dict(p_optional, str_lens, list_lens, max_depth, exclude_small_ints)."""
    opts = opts or {}
    p_opt = opts.get("p_optional", 0.6)
    out = {}
    fields = idl.structs[sname]
    if sname in idl.unions:
        cand = [f for f in fields if not (opts.get("exclude_small_ints") and _has_small_int(idl, f["type"]))]
        f = cand[int(rng.integers(0, len(cand)))]
        out[f["name"]] = _gen_field(rng, idl, f["type"], depth, opts)
        return out
    for f in fields:
        if opts.get("exclude_small_ints") and f["type"] in ("i8", "i16", "byte"):
            if f["req"] == "required":
                return None
            continue
        if f["req"] != "required" and rng.random() > p_opt:
            continue
        if depth >= opts.get("max_depth", 4) and _is_struct(idl, f["type"]) and f["req"] != "required":
            continue
        v = _gen_field(rng, idl, f["type"], depth, opts)
        if v is None:
            if f["req"] == "required":
                return None
            continue
        out[f["name"]] = v
    return out


def _is_struct(idl, t):
    return (isinstance(t, tuple) and t[1] in idl.structs) or (not isinstance(t, tuple) and t in idl.structs)


def _has_small_int(idl, t):
    if isinstance(t, tuple):
        t = t[1]
    if t in ("i8", "i16", "byte"):
        return True
    if t in idl.structs:
        return any(f["req"] == "required" and _has_small_int(idl, f["type"]) for f in idl.structs[t])
    return False


def _int(rng, bits):
    lim = 1 << (bits - 1)
    edge = [0, 1, -1, lim - 1, -lim, 127, 128, 300, -129]
    edge = [e for e in edge if -lim <= e < lim]
    if rng.random() < 0.5:
        return int(edge[int(rng.integers(0, len(edge)))])
    return int(rng.integers(-lim, lim - 1, dtype="int64")) if bits == 64 else int(rng.integers(-lim, lim))


def _gen_field(rng, idl, t, depth, opts):
    if isinstance(t, tuple):
        lens = opts.get("list_lens", LIST_LENS)
        n = int(lens[int(rng.integers(0, len(lens)))])
        if depth >= 2 and _is_struct(idl, t):
            n = min(n, 2)
        vals = []
        for _ in range(n):
            v = _gen_field(rng, idl, t[1], depth + 1, opts)
            if v is None:
                return None
            vals.append(v)
        return vals
    if t == "bool":
        return bool(rng.integers(0, 2))
    if t in ("byte", "i8"):
        return _int(rng, 8)
    if t == "i16":
        return _int(rng, 16)
    if t == "i32":
        return _int(rng, 32)
    if t == "i64":
        return _int(rng, 64)
    if t in idl.enums:
        vals = list(idl.enums[t].values())
        return int(vals[int(rng.integers(0, len(vals)))])
    if t == "double":
        return float(rng.standard_normal())
    if t in ("binary", "string"):
        lens = opts.get("str_lens", STR_LENS)
        n = int(lens[int(rng.integers(0, len(lens)))])
        if t == "string":
            return bytes(rng.integers(97, 123, n, dtype="uint8"))     # ascii text, kept as bytes in the tree
        return bytes(rng.integers(0, 256, n, dtype="uint8"))
    if t in idl.structs:
        return gen_value(rng, idl, t, depth + 1, opts)
    raise KeyError(t)
