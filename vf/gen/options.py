"""Write-option generator (DESIGN.md 5, 'Option generator')."""
import numpy as np

CODECS = [None, "SNAPPY", "GZIP", "ZSTD", "LZ4", "BROTLI"]
PAGE_SIZES = [None, 64, 1024, 65536]


def row_group_offsets(rng, n):
    c = int(rng.integers(0, 6))
    if c == 0 or n == 0:
        return None
    if c == 1:
        return int(max(1, n // int(rng.integers(1, 6))))
    if c == 2:
        return 1 if n <= 40 else int(max(1, n // 7))
    if c == 3:
        # explicit list starting at 0
        k = int(rng.integers(1, 5))
        cuts = sorted(set(int(x) for x in rng.integers(1, max(2, n), k)))
        if n > 4 and k == 2:
            # a list that does not name row 0 (the rows before its first entry are a row group too)
            return [x for x in cuts if 0 < x < n]
        return [0] + [x for x in cuts if 0 < x < n]
    if c == 4:
        # explicit list with an empty group (repeated offset)
        m = max(1, n // 2)
        return [0, m, m] if m < n else [0]
    return int(n + 5)


def compression(rng, colnames):
    c = int(rng.integers(0, 10))
    if c < 6:
        return CODECS[c]
    if c == 6:
        d = {name: CODECS[int(rng.integers(0, len(CODECS)))] for name in colnames}
        return d
    if c == 7:
        d = {"_default": CODECS[int(rng.integers(1, len(CODECS)))]}
        for name in colnames[: len(colnames) // 2]:
            d[name] = CODECS[int(rng.integers(0, len(CODECS)))]
        return d
    if c == 8:
        return {"_default": {"type": "GZIP", "args": {"compresslevel": 1}},
                **({colnames[0]: {"type": "ZSTD", "args": {"level": 3}}} if colnames else {})}
    if colnames and len(colnames) % 2 == 0:
        # a codec spec without "type" (compress_data then takes gzip)
        return {"_default": {"args": None}}
    return {"_default": {"type": "SNAPPY", "args": None}}


def has_nulls(rng, colnames):
    c = int(rng.integers(0, 5))
    if c <= 1:
        return True
    if c == 2:
        return False
    if c == 3:
        return "infer"
    return [n for n in colnames if rng.random() < 0.5]


def stats(rng, colnames):
    c = int(rng.integers(0, 5))
    if c == 0:
        return True
    if c == 1:
        return False
    if c in (2, 3):
        return "auto"
    return [n for n in colnames if rng.random() < 0.5]
