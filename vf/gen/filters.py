"""Filter-program generator (DESIGN.md 5/C05 workload)."""
import datetime
import math

import numpy as np
import pandas as pd

OPS = ["==", "=", "!=", "<", "<=", ">", ">=", "in", "not in"]


def _neighbours(v):
    """Values just below / above v of the same family (absent-value candidates)."""
    if isinstance(v, (bool, np.bool_)):
        return [not v]
    if isinstance(v, (int, np.integer)):
        out = [int(v) - 1, int(v) + 1]
        if abs(int(v)) < 2 ** 51:
            out += [int(v) + 0.5, int(v) - 0.5]       # a non-integral constant next to an integer bound
        return out
    if isinstance(v, (float, np.floating)):
        f = float(v)
        if math.isinf(f) or math.isnan(f):
            return [0.0]
        return [float(np.nextafter(f, -np.inf)), float(np.nextafter(f, np.inf)), f - 1.0, f + 1.0]
    if isinstance(v, str):
        return [v + "a", v[:-1], v + "\x00", ""]
    if isinstance(v, bytes):
        return [v + b"a", v[:-1], b""]
    if isinstance(v, (pd.Timestamp, np.datetime64)):
        t = pd.Timestamp(v)
        # (fractions finer than the unit a second / millisecond column is stored in)
        return [t - pd.Timedelta(1, "us"), t + pd.Timedelta(1, "us"), t - pd.Timedelta(1, "D"), t + pd.Timedelta(1, "D"), t + pd.Timedelta(500, "ms"), t - pd.Timedelta(250, "us"), t + pd.Timedelta(250, "ms")]
    if isinstance(v, (pd.Timedelta, np.timedelta64)):
        t = pd.Timedelta(v)
        return [t - pd.Timedelta(1, "us"), t + pd.Timedelta(1, "us"), t + pd.Timedelta(500, "ms"), t - pd.Timedelta(250, "us"), t + pd.Timedelta(250, "ms")]
    return []


def _variants(v, rng):
    """The same constant in a different but comparable type."""
    out = [v]
    if isinstance(v, (bool, np.bool_)):
        return [bool(v), int(v)]
    if isinstance(v, (int, np.integer)):
        i = int(v)
        out = [i, np.int64(i) if -2 ** 63 <= i < 2 ** 63 else i]
        if abs(i) < 2 ** 53:
            out += [float(i), np.float64(i)]
    elif isinstance(v, (float, np.floating)):
        f = float(v)
        out = [f, np.float64(f)]
        if f.is_integer() and abs(f) < 2 ** 53:
            out.append(int(f))
    elif isinstance(v, (pd.Timestamp, np.datetime64)):
        t = pd.Timestamp(v)
        out = [t]
        if t.tzinfo is None:
            out += [t.to_datetime64(), t.to_pydatetime() if t.nanosecond == 0 else t, t.isoformat()]
        else:
            out += [t.tz_convert("UTC"), t.tz_convert("UTC").tz_localize(None)]
    return out


def make_condition(rng, name, present, bounds):
    """present: list of raw non-missing values of the column; bounds: list of (min, max) per row group (may be empty)."""
    op = OPS[int(rng.integers(0, len(OPS)))]
    pool = []
    if present:
        pool.append(present[int(rng.integers(0, len(present)))])
    for b in bounds:
        pool.extend(b)
    if not pool:
        pool = [0]
    base = pool[int(rng.integers(0, len(pool)))]
    r = rng.random()
    if r < 0.35:
        nb = _neighbours(base)
        if nb:
            base = nb[int(rng.integers(0, len(nb)))]
    if op in ("in", "not in"):
        k = int([0, 1, 1, 2, 3, 5][int(rng.integers(0, 6))])
        vals = []
        for _ in range(k):
            b = pool[int(rng.integers(0, len(pool)))]
            if rng.random() < 0.4:
                nb = _neighbours(b)
                if nb:
                    b = nb[int(rng.integers(0, len(nb)))]
            vs = _variants(b, rng)
            vals.append(vs[int(rng.integers(0, len(vs)))] if rng.random() < 0.3 else b)
        if len(vals) >= 2 and type(vals[0]) is float and math.isfinite(vals[0]) and int(abs(math.frexp(vals[0])[0]) * 64) % 3 == 0:
            # a NaN among the listed values (chosen without drawing from the generator): it matches no stored value, the others still do
            vals.insert(1, float("nan"))
        return (name, op, vals)
    vs = _variants(base, rng)
    val = vs[int(rng.integers(0, len(vs)))] if rng.random() < 0.35 else base
    return (name, op, val)


def make_program(rng, colinfo):
    """colinfo: {name: (present_values, bounds)}.  Returns a fastparquet filters argument."""
    names = list(colinfo)
    ngroups = int([1, 1, 1, 2, 3][int(rng.integers(0, 5))])
    groups = []
    for _ in range(ngroups):
        nc = int([1, 1, 2, 3][int(rng.integers(0, 4))])
        g = []
        for _ in range(nc):
            nm = names[int(rng.integers(0, len(names)))]
            g.append(make_condition(rng, nm, *colinfo[nm]))
        groups.append(g)
    if ngroups == 1 and rng.random() < 0.6:
        return groups[0]          # flat list = AND
    return groups


def api_form(program, salt):
    """The same program with the value collections of 'in' / 'not in' handed over as another kind of collection (tuple, set, frozenset,
    numpy array, pandas Index) - the oracle keeps judging the lists.  Deterministic in `salt` (draws nothing from a generator).
    Returns (program, number of collections handed over in another form)."""
    changed = [0]

    def conv(vals, j):
        if not isinstance(vals, list):
            return vals
        kind = (salt + j) % 6
        try:
            if kind == 0:
                return vals
            if kind == 2:
                out = set(vals)
            elif kind == 3:
                out = frozenset(vals)
            elif kind in (4, 5) and vals and all(type(x) is str and not x.endswith("\x00") for x in vals):
                # (text only: for numbers pandas' isin compares an int64 / float64 ARRAY with the column through a common dtype -
                #  float64 against a uint64 column - where it compares a LIST value by value; that is pandas' arithmetic, not the library's)
                out = np.array(vals, dtype=object) if kind == 4 else pd.Index(vals)
            else:
                out = tuple(vals)
        except TypeError:
            return vals
        changed[0] += 1
        return out

    def cond(t, j):
        c, op, v = t
        return (c, op, conv(v, j)) if op in ("in", "not in") else t
    if program and isinstance(program[0][0], str):
        out = [cond(t, j) for j, t in enumerate(program)]
    else:
        out = [[cond(t, 7 * i + j) for j, t in enumerate(g)] for i, g in enumerate(program)]
    return out, changed[0]


def describe(program):
    def d(v):
        if isinstance(v, (list, tuple, set, frozenset, np.ndarray, pd.Index)):
            return [d(x) for x in v]
        return "%s:%r" % (type(v).__name__, v)
    if program and isinstance(program[0][0], str):
        return [(c, op, d(v)) for c, op, v in program]
    return [[(c, op, d(v)) for c, op, v in g] for g in program]
