import os
import sys


def main(argv):
    if len(argv) < 1:
        print("usage: ./check <Cxx> <quick|thorough> [--replay file]")
        return 2
    prop = argv[0]
    tier = os.environ.get("VERIF_TIER") or "quick"
    replay = None
    rest = argv[1:]
    while rest:
        a = rest.pop(0)
        if a in ("quick", "thorough"):
            tier = a
        elif a == "--replay":
            replay = rest.pop(0)
    seed = int(os.environ.get("VERIF_SEED", "0") or 0)
    from . import runner
    return runner.main(prop, tier, seed, replay)


if __name__ == "__main__":
    sys.exit(main(sys.argv[1:]))
