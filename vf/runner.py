"""Process-per-shard runner with journals, watchdog, three-valued verdicts (DESIGN.md 1.3, 3).

Property driver interface (module vf.props.cNN):
  ID, LEVEL, RULE, TECHNIQUE           -- strings
  FLAVOUR = "plain" | "asan"
  gen_cases(tier, seed) -> list of JSON-able dicts, each with a unique "id"
  run_case(case) -> dict(
        outcome   = "ok" | "rejected" | "skip",
        features  = list (hashable after tuple()) describing what the oracle actually compared,
        nontrivial= bool,
        failures  = [ {"kind": str, ...}, ... ]   (empty = property held on this case)
        counters  = {name: int},
        sample    = optional small JSON-able description)
  required(tier) -> {counter: minimum}   (optional; below minimum => INCONCLUSIVE)
  setup_worker()                          (optional)
  finalize(agg) -> list of extra failures (optional, parent side, e.g. cross-case checks)
  ASSUMPTIONS = [...]
"""
import glob
import hashlib
import importlib
import json
import os
import shutil
import signal
import subprocess
import sys
import tempfile
import time
import traceback

from . import ROOT, REPO, PY
from . import build, known

NPROC = int(os.environ.get("VF_NPROC", "16"))


def _mod(prop):
    return importlib.import_module("vf.props." + prop.lower())


# ----------------------------------------------------------------------------- worker

def worker_main(argv):
    prop, cases_file, journal_file = argv
    mod = _mod(prop)
    build.assert_shadow()
    if hasattr(mod, "setup_worker"):
        mod.setup_worker()
    with open(cases_file) as f:
        cases = json.load(f)
    j = open(journal_file, "a", buffering=1)
    for case in cases:
        j.write(json.dumps({"ev": "start", "id": case["id"]}) + "\n")
        j.flush()
        os.fsync(j.fileno()) if os.environ.get("VF_FSYNC") else None
        t0 = time.time()
        try:
            res = mod.run_case(case)
        except BaseException as e:  # harness error, not a verdict
            if isinstance(e, KeyboardInterrupt):
                raise
            res = {"outcome": "harness_error", "features": [], "nontrivial": False, "failures": [],
                   "counters": {}, "error": "".join(traceback.format_exception(type(e), e, e.__traceback__))[-4000:]}
        res["id"] = case["id"]
        res["ev"] = "end"
        res["t"] = round(time.time() - t0, 4)
        j.write(json.dumps(res, default=_jsonable) + "\n")
        if res.get("restart_worker"):
            # the case left the process in a state that later cases must not inherit (e.g. a sanitizer let a heap overrun proceed):
            # leave; the parent resumes the shard after this case in a fresh process
            break
    j.close()


def _jsonable(o):
    import numpy as np
    if isinstance(o, (np.integer,)):
        return int(o)
    if isinstance(o, (np.floating,)):
        return float(o)
    if isinstance(o, (np.bool_,)):
        return bool(o)
    if isinstance(o, bytes):
        return "b:" + o[:200].hex()
    if isinstance(o, (set, frozenset, tuple)):
        return list(o)
    return repr(o)[:300]


# ----------------------------------------------------------------------------- parent

class Shard:
    def __init__(self, idx, cases):
        self.idx = idx
        self.cases = cases
        self.done = {}      # id -> result
        self.crashed = {}   # id -> description
        self.proc = None
        self.t_start = None
        self.pending_from = 0


def _read_journal(path):
    started, ended = [], {}
    if not os.path.exists(path):
        return started, ended
    with open(path) as f:
        for line in f:
            line = line.strip()
            if not line:
                continue
            try:
                r = json.loads(line)
            except ValueError:
                continue
            if r.get("ev") == "start":
                started.append(r["id"])
            elif r.get("ev") == "end":
                ended[r["id"]] = r
    return started, ended


_SEQ = [0]


def run_cases(prop, cases, flavour, scratch, case_timeout, extra_env=None, nproc=None, per_case_process=False):
    """Run cases in worker subprocesses. Returns (results{id:res}, crashes{id:desc}, hangs[list of id])."""
    nproc = nproc or NPROC
    results, crashes, hangs = {}, {}, []
    if not cases:
        return results, crashes, hangs
    n = max(1, min(nproc, len(cases)))
    # round-robin so that expensive neighbouring cases spread out
    shards = [cases[i::n] for i in range(n)]
    queue = [(i, s) for i, s in enumerate(shards) if s]
    running = []
    seq = _SEQ      # process-wide: a second run_cases() in the same scratch (confirmation runs) must not reuse journals
    asan_dir = os.path.join(scratch, "san")
    os.makedirs(asan_dir, exist_ok=True)

    def launch(idx, todo):
        seq[0] += 1
        tag = "%s-%d-%d" % (prop, idx, seq[0])
        cf = os.path.join(scratch, tag + ".cases.json")
        jf = os.path.join(scratch, tag + ".journal")
        with open(cf, "w") as f:
            json.dump(todo, f)
        env, _ = build.env_for(flavour, extra=extra_env, asan_log=os.path.join(asan_dir, tag))
        env["VF_SCRATCH"] = os.path.join(scratch, "w%d" % idx)
        env["VF_SAN_TAG"] = os.path.join(asan_dir, tag)
        os.makedirs(env["VF_SCRATCH"], exist_ok=True)
        out = open(os.path.join(scratch, tag + ".out"), "wb")
        p = subprocess.Popen([PY, "-X", "faulthandler", "-m", "vf.runner", "--worker", prop, cf, jf],
                             env=env, cwd=ROOT, stdout=out, stderr=subprocess.STDOUT,
                             start_new_session=True)
        return {"idx": idx, "todo": todo, "jf": jf, "p": p, "t0": time.time(), "out": out.name, "tag": tag,
                "last_n": 0, "last_t": time.time()}

    for idx, s in queue:
        running.append(launch(idx, s))
    while running:
        time.sleep(0.05)
        for r in list(running):
            rc = r["p"].poll()
            started, ended = _read_journal(r["jf"])
            if len(ended) != r["last_n"]:
                r["last_n"] = len(ended)
                r["last_t"] = time.time()
            if rc is None:
                # per-case watchdog: the case in flight has used more than its budget
                if time.time() - r["last_t"] > case_timeout and len(started) > len(ended):
                    try:
                        os.killpg(r["p"].pid, signal.SIGKILL)
                    except ProcessLookupError:
                        pass
                    r["p"].wait()
                    rc = "hang"
                elif time.time() - r["last_t"] > case_timeout * 3:
                    try:
                        os.killpg(r["p"].pid, signal.SIGKILL)
                    except ProcessLookupError:
                        pass
                    r["p"].wait()
                    rc = "hang"
                else:
                    continue
            running.remove(r)
            try:    # helpers the worker left behind (llvm-symbolizer of the sanitizer runtime) live in its own session
                os.killpg(r["p"].pid, signal.SIGKILL)
            except (ProcessLookupError, PermissionError):
                pass
            started, ended = _read_journal(r["jf"])
            for cid, res in ended.items():
                res["_san_tag"] = r["tag"]
                results[cid] = res
            inflight = [c for c in started if c not in ended]
            ids = [c["id"] for c in r["todo"]]
            if rc == 0 and not inflight and len(ended) == len(ids):
                continue
            # abnormal: find the killing case and resume after it
            try:
                with open(r["out"], "rb") as f:
                    tail = f.read()[-3000:].decode("utf8", "replace")
            except OSError:
                tail = ""
            if flavour == "asan":   # the sanitizer runtime writes its fatal report to the log, not to stdout
                try:
                    logs = sorted(glob.glob(os.path.join(asan_dir, r["tag"] + ".*")), key=os.path.getmtime)
                    if logs:
                        with open(logs[-1], "rb") as f:
                            txt = f.read().decode("utf8", "replace")
                        i = max(txt.rfind("ERROR: AddressSanitizer"), txt.rfind("runtime error:"))
                        tail += "\n--- sanitizer log (last report) ---\n" + "\n".join(l for l in txt[max(0, i - 20):].splitlines()[:14])[:1500]
                except OSError:
                    pass
            if inflight:
                bad = inflight[-1]
                if rc == "hang":
                    hangs.append(bad)
                else:
                    crashes[bad] = {"rc": rc, "signal": (-rc if isinstance(rc, int) and rc < 0 else None),
                                    "tail": tail, "san_tag": r["tag"]}
                pos = ids.index(bad) + 1
            else:
                # died outside a case (import failure etc.)
                pos = len(ended)
                if pos == 0 and rc != "hang":
                    raise RuntimeError("worker for %s died before any case (rc=%s):\n%s" % (prop, rc, tail))
            rest = r["todo"][pos:]
            if rest:
                running.append(launch(r["idx"], rest))
    return results, crashes, hangs


def sanitizer_reports(scratch):
    """Parse ASan/UBSan log files written by workers. Returns list of dict(tag, pid, kind, text)."""
    out = []
    d = os.path.join(scratch, "san")
    if not os.path.isdir(d):
        return out
    for name in sorted(os.listdir(d)):
        p = os.path.join(d, name)
        try:
            txt = open(p, errors="replace").read()
        except OSError:
            continue
        out.append({"file": name, "text": txt})
    return out


def replay_path(prop, case, failure):
    h = hashlib.sha1(json.dumps([case, failure], sort_keys=True, default=str).encode()).hexdigest()[:12]
    d = os.path.join(ROOT, "replays")
    os.makedirs(d, exist_ok=True)
    return os.path.join(d, "%s-%s.json" % (prop, h))


def main(prop, tier, seed, replay=None):
    t0 = time.time()
    prop = prop.upper()
    mod = _mod(prop)
    from . import evidence
    scratch = tempfile.mkdtemp(prefix="vf-%s-" % prop, dir=os.environ.get("VF_TMP", "/var/tmp"))
    status = 2
    try:
        try:
            build.build(mod.FLAVOUR)
        except Exception as e:
            print("INCONCLUSIVE property=%s reason=build-failed %s" % (prop, str(e)[:500]))
            evidence.write_inconclusive(prop, tier, seed, mod, "build failed: %s" % str(e)[:300], time.time() - t0)
            return 2
        if replay:
            with open(replay) as f:
                rp = json.load(f)
            cases = [rp["case"]]
            os.environ["VF_PARTIAL"] = "1"
        else:
            cases = mod.gen_cases(tier, seed)
        if os.environ.get("VF_ONLY"):      # debugging aid: restrict to case ids matching a regex
            import re
            cases = [c for c in cases if re.search(os.environ["VF_ONLY"], c["id"])]
        ids = [c["id"] for c in cases]
        assert len(set(ids)) == len(ids), "duplicate case ids"
        case_timeout = getattr(mod, "CASE_TIMEOUT", 120)
        extra_env = {"VERIF_SEED": str(seed), "VERIF_TIER": tier}
        if hasattr(mod, "extra_env"):
            extra_env.update(mod.extra_env(tier))
        results, crashes, hangs = run_cases(prop, cases, mod.FLAVOUR, scratch, case_timeout, extra_env=extra_env)
        agg = Aggregate(prop, tier, seed, mod, cases, results, crashes, hangs, scratch)
        # confirm hangs/crashes alone (10x budget for hangs)
        agg.confirm_alone(run_cases, case_timeout, extra_env)
        # a case that is in no list at all (its worker was lost without a trace, seen once on a loaded machine) is run again, once
        lost = [c for c in cases if c["id"] not in agg.results and c["id"] not in agg.crashes and c["id"] not in agg.hangs]
        if lost:
            agg.notes.append("%d case(s) without any record were run again: %s" % (len(lost), ", ".join(c["id"] for c in lost[:5])))
            r3, c3, h3 = run_cases(prop, lost, mod.FLAVOUR, scratch, case_timeout, extra_env=extra_env, nproc=min(NPROC, len(lost)))
            agg.results.update(r3)
            agg.crashes, agg.hangs = c3, h3
            agg.confirm_alone(run_cases, case_timeout, extra_env)
        if hasattr(mod, "finalize"):
            mod.finalize(agg)
        status = agg.verdict(time.time() - t0, replay_mode=bool(replay))
        return status
    finally:
        if not os.environ.get("VF_KEEP"):
            shutil.rmtree(scratch, ignore_errors=True)
        else:
            print("scratch kept:", scratch)


class Aggregate:
    def __init__(self, prop, tier, seed, mod, cases, results, crashes, hangs, scratch):
        self.prop, self.tier, self.seed, self.mod = prop, tier, seed, mod
        self.cases = {c["id"]: c for c in cases}
        self.order = [c["id"] for c in cases]
        self.results, self.crashes, self.hangs = results, crashes, hangs
        self.scratch = scratch
        self.extra_failures = []   # (case, failure) from finalize
        self.inconclusive = []
        self.notes = []

    def confirm_alone(self, run_cases, case_timeout, extra_env):
        redo = [self.cases[c] for c in list(self.crashes) + list(self.hangs)]
        if not redo:
            return
        crash_is_failure = getattr(self.mod, "CRASH_IS_VIOLATION", True)
        res2, crashes2, hangs2 = run_cases(self.prop, redo, self.mod.FLAVOUR, self.scratch,
                                           case_timeout * getattr(self.mod, "HANG_CONFIRM_FACTOR", 2),
                                           extra_env=extra_env, nproc=min(NPROC, len(redo)))
        for cid in list(self.crashes):
            if cid in crashes2:
                d = crashes2[cid]
                self.results[cid] = {"id": cid, "outcome": "crash", "features": [], "nontrivial": True,
                                     "counters": {"worker_crash": 1},
                                     "failures": [{"kind": "process_crash", "signal": d.get("signal"), "rc": d.get("rc"),
                                                   "tail": d.get("tail", "")[-1500:]}] if crash_is_failure else []}
                if not crash_is_failure:
                    self.inconclusive.append("case %s crashed the worker (rc=%s)" % (cid, d.get("rc")))
            elif cid in res2:
                # crash not reproducible alone: state-dependent crash; report as violation with note
                first = self.crashes[cid]
                r = res2[cid]
                r.setdefault("failures", [])
                if crash_is_failure:
                    r["failures"].append({"kind": "process_crash", "signal": first.get("signal"), "rc": first.get("rc"),
                                          "reproducible_alone": False, "tail": first.get("tail", "")[-1500:]})
                self.results[cid] = r
            else:
                self.inconclusive.append("case %s crashed then hung" % cid)
        for cid in list(self.hangs):
            if cid in res2:
                self.results[cid] = res2[cid]
                self.notes.append("case %s exceeded its budget in a shard but finished alone" % cid)
            elif cid in hangs2:
                if getattr(self.mod, "HANG_IS_VIOLATION", False):
                    self.results[cid] = {"id": cid, "outcome": "hang", "features": [], "nontrivial": True,
                                         "counters": {"hang": 1}, "failures": [{"kind": "hang"}]}
                else:
                    self.inconclusive.append("case %s hung (10x budget)" % cid)
            elif cid in crashes2:
                self.inconclusive.append("case %s hung then crashed" % cid)

    def counters(self):
        tot = {}
        for r in self.results.values():
            for k, v in (r.get("counters") or {}).items():
                tot[k] = tot.get(k, 0) + v
        return tot

    def sets(self):
        tot = {}
        for r in self.results.values():
            for k, v in (r.get("sets") or {}).items():
                tot.setdefault(k, set()).update(v if isinstance(v, list) else [v])
        return tot

    def verdict(self, wall, replay_mode=False):
        from . import evidence
        prop, mod = self.prop, self.mod
        kf = known.load()
        violations, knowns, harness = [], {}, []
        for cid in self.order:
            r = self.results.get(cid)
            if r is None:
                self.inconclusive.append("case %s has no result" % cid)
                continue
            if r.get("outcome") == "harness_error":
                harness.append((cid, r.get("error", "")))
                continue
            for fl in r.get("failures") or []:
                key = known.classify(prop, self.cases[cid], fl, kf)
                if key:
                    knowns.setdefault(key, []).append((cid, fl))
                else:
                    violations.append((cid, fl))
        for case, fl in self.extra_failures:
            key = known.classify(prop, case, fl, kf)
            if key:
                knowns.setdefault(key, []).append((case.get("id"), fl))
            else:
                violations.append((case.get("id"), fl))
                self.cases.setdefault(case.get("id"), case)
        counters = self.counters()
        if harness:
            self.inconclusive.append("%d harness errors, first (case %s): %s" % (len(harness), harness[0][0], harness[0][1][-2500:]))
        req = mod.required(self.tier) if hasattr(mod, "required") and not replay_mode else {}
        for k, v in req.items():
            if counters.get(k, 0) < v:
                self.inconclusive.append("reach counter %s=%d < %d" % (k, counters.get(k, 0), v))
        for key, hits in sorted(knowns.items()):
            what = known.describe(key, kf)
            print("KNOWN-FINDING: property=%s %s %s (%d cases, e.g. %s)" % (prop, key, what, len(hits), hits[0][0]))
        seen = set()
        vlines = 0
        for cid, fl in violations:
            sig = json.dumps({k: v for k, v in fl.items() if k in ("kind", "code", "column", "exc", "where", "func")},
                             sort_keys=True, default=str)
            path = replay_path(prop, self.cases[cid], fl)
            with open(path, "w") as f:
                json.dump({"property": prop, "seed": self.seed, "tier": self.tier, "case": self.cases[cid],
                           "failure": fl, "tree": build.tree_hashes()}, f, indent=1, default=_jsonable)
            if sig in seen and vlines >= 5:
                continue
            seen.add(sig)
            if vlines < 40:
                print("VIOLATION property=%s replay=%s" % (prop, path))
                print("  case=%s failure=%s" % (cid, json.dumps(fl, default=_jsonable)[:600]))
            vlines += 1
        evidence.write(self, counters, violations, knowns, wall)
        if violations:
            print("%s %s: %d violating failures in %d cases (%.1fs)" % (prop, self.tier, len(violations),
                                                                         len({c for c, _ in violations}), wall))
            return 1
        if self.inconclusive:
            for m in self.inconclusive[:10]:
                print("INCONCLUSIVE property=%s reason=%s" % (prop, m))
            return 2
        n_ok = sum(1 for r in self.results.values() if r.get("outcome") == "ok")
        print("%s %s seed=%d: held on %d cases (%d ok, %d rejected/skip), %d known-finding keys hit, %.1fs" % (
            prop, self.tier, self.seed, len(self.results), n_ok, len(self.results) - n_ok, len(knowns), wall))
        return 0


if __name__ == "__main__":
    if len(sys.argv) > 1 and sys.argv[1] == "--worker":
        worker_main(sys.argv[2:])
    else:
        raise SystemExit("use ./check")
