"""Group replay files by failure signature: python -m vf.triage C01"""
import collections, glob, json, os, sys
from . import ROOT
prop = sys.argv[1]
groups = collections.defaultdict(list)
for p in glob.glob(os.path.join(ROOT, "replays", prop + "-*.json")):
    r = json.load(open(p))
    f = r["failure"]
    sig = (f.get("kind"), f.get("exc"), f.get("where"), f.get("code"), f.get("index"), (f.get("msg") or "")[:60])
    groups[sig].append((r["case"]["id"], p, f))
for sig, items in sorted(groups.items(), key=lambda kv: -len(kv[1])):
    print(len(items), sig)
    for cid, p, f in items[:int(sys.argv[2]) if len(sys.argv) > 2 else 4]:
        print("     ", cid, os.path.basename(p), json.dumps({k: v for k, v in f.items() if k not in ("kind", "exc", "where", "msg", "tail")})[:260])
