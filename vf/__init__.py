"""Runtime-monitoring verification framework for dask/fastparquet (see /verif/DESIGN.md)."""
import os

ROOT = os.path.dirname(os.path.dirname(os.path.abspath(__file__)))
REPO = os.environ.get("VF_REPO", "/repo")
PY = "/venv/bin/python"
