"""Shadow build of the repository's working tree (DESIGN.md 1.1).

The shadow package is a directory outside /repo that holds symlinks to every
Python file of <repo>/fastparquet plus extension modules compiled here from
<repo>/fastparquet/{cencoding,speedups}.c as they are in the working tree.
Two flavours: "plain" (gcc -O2) and "asan" (clang ASan+UBSan).
"""
import hashlib
import json
import os
import shutil
import subprocess
import sys
import time

from . import ROOT, REPO, PY

CACHE = os.path.join(ROOT, ".cache")
PYINC = "/root/.pyenv/versions/3.12.1/include/python3.12"
NPINC = "/venv/lib/python3.12/site-packages/numpy/_core/include"
SUFFIX = ".cpython-312-x86_64-linux-gnu.so"
ASAN_RT = "/usr/lib/llvm-14/lib/clang/14.0.6/lib/linux/libclang_rt.asan-x86_64.so"

FLAGS = {
    "plain": ["gcc", "-shared", "-fPIC", "-O2", "-fno-strict-overflow", "-DNDEBUG", "-w"],
    "asan": ["clang", "-shared", "-fPIC", "-O1", "-g", "-fno-omit-frame-pointer",
             "-fsanitize=address,undefined", "-fno-sanitize=alignment",
             "-fsanitize-recover=address,undefined", "-DNDEBUG", "-w"],
}
MODS = ("cencoding", "speedups")


def _sha(path):
    h = hashlib.sha256()
    with open(path, "rb") as f:
        for blk in iter(lambda: f.read(1 << 20), b""):
            h.update(blk)
    return h.hexdigest()


def tree_hashes(repo=None):
    repo = repo or REPO
    out = {}
    d = os.path.join(repo, "fastparquet")
    for name in sorted(os.listdir(d)):
        p = os.path.join(d, name)
        if os.path.isfile(p) and name.endswith((".py", ".pyx", ".c", ".so", ".thrift")):
            out[name] = _sha(p)[:16]
    return out


def _key(repo, flavour):
    h = hashlib.sha256()
    h.update(" ".join(FLAGS[flavour]).encode())
    h.update(os.path.abspath(repo).encode())      # (the python files are symlinks into that tree)
    for m in MODS:
        c = os.path.join(repo, "fastparquet", m + ".c")
        if os.path.exists(c):
            h.update(_sha(c).encode())
        else:
            h.update(b"missing:" + m.encode())
            so = os.path.join(repo, "fastparquet", m + SUFFIX)
            if os.path.exists(so):
                h.update(_sha(so).encode())
    return flavour + "-" + h.hexdigest()[:20]


def _link_python(repo, pkgdir):
    src = os.path.join(repo, "fastparquet")
    os.makedirs(pkgdir, exist_ok=True)
    want = {}
    for name in os.listdir(src):
        if name == "__pycache__" or name.endswith((".so", ".c", ".html", ".pyc")):
            continue
        want[name] = os.path.join(src, name)
    for name in os.listdir(pkgdir):
        p = os.path.join(pkgdir, name)
        if name.endswith(".so") or name == "__pycache__" or name.endswith(".log"):
            continue
        if os.path.islink(p) and (name not in want or os.readlink(p) != want[name]):
            os.unlink(p)
    for name, target in want.items():
        p = os.path.join(pkgdir, name)
        if not os.path.lexists(p):
            os.symlink(target, p)


def build(flavour="plain", repo=None, quiet=True):
    """Return (shadow_root, info). shadow_root goes first on PYTHONPATH."""
    repo = repo or REPO
    key = _key(repo, flavour)
    root = os.path.join(CACHE, key)
    pkg = os.path.join(root, "fastparquet")
    _link_python(repo, pkg)
    info = {"flavour": flavour, "key": key, "built": [], "fallback": []}
    procs = []
    for m in MODS:
        so = os.path.join(pkg, m + SUFFIX)
        if os.path.exists(so):
            continue
        c = os.path.join(repo, "fastparquet", m + ".c")
        if not os.path.exists(c):
            src_so = os.path.join(repo, "fastparquet", m + SUFFIX)
            if flavour == "plain" and os.path.exists(src_so):
                shutil.copy(src_so, so)
                info["fallback"].append(m)
                continue
            raise RuntimeError("cannot build %s (%s): %s missing" % (m, flavour, c))
        tmp = so + ".tmp%d" % os.getpid()
        cmd = FLAGS[flavour] + ["-I" + PYINC, "-I" + NPINC, c, "-o", tmp]
        procs.append((m, so, tmp, subprocess.Popen(cmd, stdout=subprocess.PIPE, stderr=subprocess.STDOUT)))
    for m, so, tmp, p in procs:
        out, _ = p.communicate()
        if p.returncode != 0:
            raise RuntimeError("build of %s (%s) failed:\n%s" % (m, flavour, out.decode()[-3000:]))
        os.replace(tmp, so)
        info["built"].append(m)
    return root, info


def env_for(flavour="plain", repo=None, extra=None, asan_log=None):
    """Environment for a worker process that must import the shadow build."""
    root, info = build(flavour, repo)
    env = dict(os.environ)
    env["PYTHONPATH"] = root + os.pathsep + ROOT
    env["PYTHONHASHSEED"] = "0"
    env["VF_SHADOW"] = root
    env["VF_FLAVOUR"] = flavour
    env.setdefault("OMP_NUM_THREADS", "1")
    env.setdefault("OPENBLAS_NUM_THREADS", "1")
    env["PYTHONDONTWRITEBYTECODE"] = "1"
    if flavour == "asan":
        env["LD_PRELOAD"] = ASAN_RT
        env["PYTHONMALLOC"] = "malloc"
        opts = "detect_leaks=0:halt_on_error=0:abort_on_error=0:allocator_may_return_null=1:handle_segv=1:symbolize=1"
        if asan_log:
            opts += ":log_path=" + asan_log
        env["ASAN_OPTIONS"] = opts
        u = "print_stacktrace=1:halt_on_error=0"
        if asan_log:
            u += ":log_path=" + asan_log
        env["UBSAN_OPTIONS"] = u
        env["ASAN_SYMBOLIZER_PATH"] = "/usr/lib/llvm-14/bin/llvm-symbolizer"
    if extra:
        env.update(extra)
    return env, info


def assert_shadow():
    """Called inside workers: the fastparquet being exercised must be the shadow build."""
    import fastparquet.cencoding as ce
    import fastparquet.speedups as sp
    root = os.environ.get("VF_SHADOW")
    assert root and os.path.realpath(ce.__file__).startswith(os.path.realpath(root)), ce.__file__
    assert os.path.realpath(sp.__file__).startswith(os.path.realpath(root)), sp.__file__
    import fastparquet
    assert os.path.realpath(fastparquet.__file__).startswith(os.path.realpath(REPO)), fastparquet.__file__


if __name__ == "__main__":
    t = time.time()
    for fl in sys.argv[1:] or ["plain", "asan"]:
        r, i = build(fl)
        print(fl, r, json.dumps(i), "%.1fs" % (time.time() - t))
