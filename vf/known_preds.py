"""Predicates for known findings: one per mechanism key.  See known.py."""
from .known import pred


@pred("zero-row-categorical-labels-not-stored")
def _zero_row_cat(prop, case, f):
    # a frame with 0 rows produces no row group, hence no dictionary page: the labels are nowhere in the file
    return (f.get("kind") == "cat_labels" and f.get("n_rows") == 0
            and f.get("got") == list(range(min(12, f.get("n_got", 0)))))
