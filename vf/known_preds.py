"""Predicates for known findings: one per mechanism key.  See known.py."""
import json

from .known import pred, PREDICATES

_ROWSET = ("non_qualifying_row_returned", "qualifying_row_not_returned", "count_differs_from_rows_returned", "row_duplicated_or_unknown",
           "rows_out_of_order")
_ALIGN = ("misaligned_cells", "misaligned_row_count", "misaligned_dtype", "cells", "row_count", "mask_read_raised")




@pred("zero-row-categorical-labels-not-stored")
def _zero_row_cat(prop, case, f):
    # a frame with 0 rows produces no row group, hence no dictionary page: the labels are nowhere in the file
    return (f.get("kind") == "cat_labels" and f.get("n_rows") == 0
            and f.get("got") == list(range(min(12, f.get("n_got", 0)))))


def _prog_index(f):
    pr = f.get("prog") or {}
    ix = (pr.get("term") or {}).get("index")
    return [] if ix in (None, False) else ([ix] if isinstance(ix, str) else list(ix))


@pred("empty-selection-loses-partition-columns")
def _empty_sel(prop, case, f):
    # a handle sliced down to zero row groups derives no partition columns from (no) paths
    parts = set(f.get("partition_on") or [])
    drill = {"dir%d" % i for i in range(len(parts))}
    if not parts or f.get("n_sel") != 0:
        return False
    if f.get("kind") == "columns":
        missing = set(f.get("expected") or []) - set(f.get("got") or [])
        extra = set(f.get("got") or []) - set(f.get("expected") or [])
        return bool(missing) and not extra and (missing <= parts or missing <= drill)
    if f.get("kind") == "program_raised" and f.get("exc") == "ValueError" and f.get("where") == "util.py:check_column_names":
        msg = f.get("msg", "")
        return any(("'%s'" % p_) in msg for p_ in parts | drill)
    return False


@pred("masked-column-as-index-coerced-to-int64")
def _masked_index(prop, case, f):
    # api._pre_allocate.get_type(index=True) maps every pandas masked dtype to "int64" for an index
    names = _prog_index(f)
    if len(names) != 1:
        return False
    dt = (f.get("index_dtypes") or {}).get(names[0], "")
    if not (dt[:3] in ("Int", "UIn") or dt == "boolean"):
        return False
    if f.get("kind") == "cells" and f.get("index") and f.get("got_dtype") == "int64":
        return True
    if f.get("kind") == "program_raised" and f.get("exc") == "TypeError" and f.get("where") in ("core.py:read_col", "core.py:read_data_page_v2") \
            and f.get("msg", "").startswith("int() argument must be"):
        return True
    return False


@pred("multiindex-read-broken-under-pandas3")
def _multiindex(prop, case, f):
    # dataframe.empty builds a MultiIndex by assigning private attributes; under pandas 3 reads with >= 2 index levels
    # raise, return nulls or crash the interpreter (the repository's own multi-index tests fail in this environment)
    if f.get("kind") == "process_crash" and case.get("multi"):
        return True      # the dedicated multi-index cases can take the interpreter down (pandas internals on a hand-built MultiIndex)
    names = _prog_index(f)
    if len(names) < 2:
        return False
    if f.get("kind") == "index_names" and f.get("expected") != f.get("got") and sorted(map(str, f.get("expected") or [])) == sorted(map(str, f.get("got") or [])):
        return False     # the right level names in another ORDER: nothing in this mechanism reorders levels
    return f.get("kind") in ("program_raised", "cells", "process_crash", "index_levels", "row_count", "dtype", "index_names")


@pred("untyped-partition-text-keys-coerced")
def _drill_text(prop, case, f):
    # without partition metadata (drill layout) directory text is type-guessed: "1", "True", "1.0" coerce to equal values and
    # merge; once one key of a level is non-numeric text the level is parsed as text in paths_to_cats but still as numbers in
    # read_row_group, so cats[...].index(val) raises "<val> is not in list"
    if f.get("scheme") != "drill" or "pstr_num" not in (f.get("pkinds") or []):
        return False
    if f.get("kind") == "dataset_read_raised" and f.get("exc") == "ValueError" and f.get("where") == "core.py:read_row_group" \
            and f.get("msg", "").endswith("is not in list"):
        return True
    if f.get("kind") == "drill_keys_merged" and f.get("pkind") == "pstr_num":
        return True
    return False


@pred("not-in-filter-prunes-when-a-chunk-bound-is-listed")
def _not_in(prop, case, f):
    # api.filter_not_in returns True (prune) as soon as the chunk's min OR max is in the list; sound only when min == max
    if f.get("kind") == "lattice_unsound_prune" and f.get("func") == "filter_not_in":
        vals, vmin, vmax = f["args"]
        return (vmin in vals) or (vmax in vals)
    if f.get("kind") == "unsound_decision" and f.get("func") == "filter_out_stats" and f.get("op") == "not in":
        return bool(f.get("bound_in_list"))
    return False


@pred("string-bound-comparison-ignores-trailing-nul")
def _nul(prop, case, f):
    # converted UTF8 statistics are pandas StringArray / numpy str: comparison with a constant ignores trailing NUL characters
    if f.get("kind") != "unsound_decision" or f.get("func") != "filter_out_stats":
        return False
    c = f.get("const")
    if f.get("col_dtype") not in ("object", "str", "category"):
        return False
    if isinstance(c, list):
        # a listed 'x\x00' is treated as equal to the bound 'x'
        bounds = {f.get("chunk_min"), f.get("chunk_max")}
        return any(isinstance(e, str) and e.startswith("str:") and e.endswith("\\x00'") and repr(eval(e[4:]).rstrip("\x00")) in bounds for e in c)
    return isinstance(c, str) and c.startswith("str:") and c.endswith("\\x00'")


@pred("row-filter-v2-pages")
def _rf_v2(prop, case, f):
    # read_data_page_v2 receives the whole row-group filter and the compact output: with nulls (definition levels decoded into
    # the compact mask) or several pages the selection is misapplied or raises IndexError/ValueError
    if prop != "C13" or f.get("dpv") != 2:
        return False
    if f.get("kind") in ("mask_read_raised", "filtered_read_raised") and f.get("where") == "core.py:read_data_page_v2":
        return True
    return f.get("kind") in _ALIGN or (f.get("kind") in _ROWSET and bool(f.get("read_columns_multi_page")))


@pred("row-filter-not-in-pruning")
def _rf_notin(prop, case, f):
    # same mechanism as not-in-filter-prunes-when-a-chunk-bound-is-listed, seen through the row filter's first pass
    return (prop == "C13" and f.get("kind") == "qualifying_row_not_returned" and "not in" in (f.get("ops") or [])
            and f.get("every_lost_row_in_a_group_whose_bound_is_in_a_not_in_list") is True)


@pred("row-filter-constants-with-nul")
def _rf_nul(prop, case, f):
    # numpy turns a str/bytes scalar into a fixed-width array element, dropping trailing NULs, when comparing with an object column
    if prop != "C13" or f.get("kind") not in _ROWSET:
        return False
    return "\\x00" in json.dumps(f.get("program"))


@pred("categorical-dictionary-differs-across-row-groups")
def _cat_dict(prop, case, f):
    # core.read_col sets the categories of the whole output column from each row group's dictionary page: with differing
    # label sets the codes of earlier row groups are reinterpreted through the last dictionary
    return (f.get("kind") == "cells" and f.get("col_dtype") == "category" and bool(f.get("label_change"))
            and not f.get("bad_all_got_missing") and not f.get("bad_all_expected_missing"))


@pred("append-to-drill-partitioned-dataset-refused")
def _drill_append(prop, case, f):
    # write(append=True) accepts an existing dataset only when its scheme is detected as hive / flat / empty and its partition
    # columns are named like partition_on; a drill dataset is detected as 'drill' (first message) or - few files, '=' in a key -
    # as something else whose columns are dir0.. (second message): either way the append is refused
    if not (f.get("kind") == "append_raised" and f.get("exc") == "ValueError" and f.get("where") == "writer.py:write"
            and f.get("scheme") == "drill" and bool(f.get("partition_on"))):
        return False
    m = f.get("msg", "")
    return m.startswith("Requested file scheme is drill") or m.startswith("When appending, partitioning columns must match")


@pred("append-text-to-column-inferred-as-bytes-refused")
def _bytes_infer(prop, case, f):
    # object_encoding='infer' on an all-null (or empty) object column stores raw BYTE_ARRAY; a later batch with str values raises
    return (f.get("kind") == "append_raised" and f.get("exc") == "TypeError" and "pack_byte_array" in (f.get("where") or "")
            and bool(f.get("allnull_object_cols_initially")))


@pred("partition-chunk-with-all-null-keys-raises")
def _allnull_keys(prop, case, f):
    # pandas groupby over >= 2 keys raises IndexError when every key of the chunk is null; fastparquet lets it propagate
    if not (f.get("kind") in ("append_raised", "write_raised") and f.get("exc") == "IndexError" and f.get("where") == "writer.py:partition_on_columns"):
        return False
    m = f.get("msg", "")
    if "non-empty take from an empty axes" in m:
        return True
    # with a categorical key pandas fails differently ("index -3 is out of bounds for axis 0 with size 2"); the driver states the premise
    return "is out of bounds for axis 0" in m and f.get("batch_rows_with_all_keys") == 0 and len(f.get("partition_on") or []) >= 2


@pred("dataset-emptied-by-removal-forgets-partitioning")
def _emptied(prop, case, f):
    # partition columns are derived from the row groups' paths; with no row group left the handle has no partition columns,
    # so append / overwrite / write_row_groups with the original columns are refused
    if prop == "C07":
        # the same state reached by a first write whose every row had a missing partition key (such rows are dropped): no data file
        if not (f.get("kind") == "append_raised" and f.get("exc") == "ValueError" and f.get("existing_data_files") == 0 and bool(f.get("partition_on"))):
            return False
        m = f.get("msg", "")
        if m.startswith("When appending, partitioning columns must match"):
            return True
        # the same refusal met through a kept handle (write_row_groups compares column names): exactly the partition columns are "only in new data"
        if f.get("where") in ("api.py:write_row_groups", "api.py:check_columns") and m.startswith("Column names of new data are") and "{" in m:
            named = set(m.split("{", 1)[1].split("}", 1)[0].replace("'", "").replace(" ", "").split(","))
            return named == set(f["partition_on"])
        return False
    if f.get("kind") != "operation_raised" or f.get("exc") != "ValueError" or f.get("row_groups_before") != 0 or not f.get("nparts"):
        return False
    m = f.get("msg", "")
    return (m.startswith("When appending, partitioning columns must match") or m.startswith("No partitioning column has been set")
            or m.startswith("Column names of new data are"))


@pred("failed-rewrite-destroys-existing-dataset")
def _rewrite(prop, case, f):
    # a non-append write() opens its target(s) with 'wb' before the data has been validated/encoded: when it then fails, the
    # dataset that was there is already truncated / partly overwritten
    if prop != "C18" or f.get("mode") != "rewrite" or not f.get("opened_for_writing"):
        return False
    # only the refusals that are late by nature - they need the VALUES (a None met while converting a non-nullable column, a value
    # the declared encoding cannot take) or the codec: a refusal that the column types alone decide is made before anything is
    # opened, and is not explained by this finding if it ever comes late
    late = {("none_in_required", "writer.py:convert"), ("na_in_required_int", "writer.py:convert"),
            ("bad_object_encoding", "writer.py:write_column"), ("unknown_codec", "compression.py:compress_data"),
            ("int32_object_overflow", "writer.py:write_column")}      # (a python int the declared INT32 cannot take: known only from the values)
    if (f.get("rejection"), f.get("raised_where")) not in late:
        return False
    return f.get("kind", "").startswith(("dataset_unreadable_after_rejection", "content_changed_after_rejection", "existing_part_file_unreadable_after_rejection"))


@pred("edit-through-sliced-handle-drops-the-other-row-groups")
def _sliced_edit(prop, case, f):
    # pf[a:b].write_row_groups: part numbers and the rewritten _metadata come from the slice's row groups only
    if prop != "C07" or not case.get("sliced_handle_append") or f.get("refused") is not None:
        return False
    a, b = case["slice"]
    if (a, b) == (0, f.get("row_groups")):
        return False      # (a slice that is the whole dataset loses nothing)
    if f.get("kind") == "rows_lost_by_append_through_sliced_handle":
        return not f.get("unexpected")       # rows of the other row groups go missing; nothing is invented
    return f.get("kind") == "existing_data_files_changed_by_append_through_sliced_handle"


@pred("refused-append-to-bare-directory-leaves-part-files")
def _bare_dir(prop, case, f):
    # a dataset without _metadata is what its directory holds: the part files a late-refused append has already created (the last one
    # truncated) stay there and break the next open
    import re
    if prop != "C18" or not case.get("no_summary") or f.get("mode") != "append":
        return False
    opened = f.get("opened_for_writing") or []
    if not opened or any(not re.search(r"(^|/)part\.\d+\.parquet$", p_) for p_ in opened):
        return False      # (only NEW part files were opened: an existing file opened for writing is another matter)
    late = {("append_unencodable_value", "writer.py:convert"), ("none_in_required", "writer.py:convert"), ("unknown_codec", "compression.py:compress_data")}
    if (f.get("rejection"), f.get("raised_where")) not in late:
        return False
    return f.get("kind") == "dataset_unreadable_after_rejection" and f.get("where") == "util.py:metadata_from_many"


@pred("foreign-v2-dictionary-column-read-as-category")
def _v2_cat(prop, case, f):
    # read_data_page_v2, branch "use_cat and dictionary": a run header is skipped as if the page had fastparquet's own layout
    # and the decoder is called with itemsize=bit_width; on a foreign file the index stream is misparsed (over-read of the page
    # buffer), giving TypeError / wrong codes or, when the stray header is an RLE run and bit_width == 0, a division by zero
    # (SIGFPE) - which of these happens depends on heap contents
    if prop == "C17":
        return f.get("kind") == "process_crash" and case.get("src") in ("test-data", "refpq") and f.get("signal") in (8, 11)
    return False


@pred("bit-unpack-32bit-accumulator-width-ge-25")
def _bp25(prop, case, f):
    # cencoding.read_bitpacked accumulates bits in a uint32: once width + bit offset exceeds 32 the high bits are lost
    if prop == "C03":
        # dictionary indices of width >= 25: wrong cells, or an index beyond the dictionary (IndexError)
        if f.get("kind") == "read_raised":
            return f.get("exc") == "IndexError" and any(c.get("enc") == "DICT" and (c.get("index_width") or 0) >= 25 for c in f.get("columns") or [])
        return f.get("kind") == "cells_differ" and f.get("enc") == "DICT" and (f.get("index_width") or 0) >= 25
    if f.get("func") not in ("read_bitpacked", "hybrid") or f.get("kind") != "values_differ" or f.get("itemsize") != 4:
        return False
    if (f.get("width") or 0) < 25:
        return False
    if f.get("func") == "hybrid":
        return any(k == "bp" for k, n in f.get("plan") or [])
    return True


@pred("delta-unpack-miniblock-width-ge-29")
def _delta29(prop, case, f):
    # cencoding.delta_read_bitpacked refills before draining with int8 bit counters: wrong values from 29 bits per delta on;
    # from 57 bits the shift count reaches 64 and the byte reader runs away (segfault)
    if prop == "C03":
        if f.get("kind") == "cells_differ" and f.get("enc") == "DELTA_BINARY_PACKED":
            return (f.get("max_miniblock_width") or 0) >= 29
        if f.get("kind") == "process_crash":
            return any(c.get("encoding") == "DELTA_BINARY_PACKED" and not c.get("use_dict") and (c.get("delta_bits") or 0) >= 56
                       for c in (case.get("recipe") or {}).get("columns", []))
        return False
    if f.get("kind") == "values_differ" and f.get("func") == "delta":
        return (f.get("max_miniblock_width") or 0) >= 29
    if f.get("kind") == "process_crash" and case.get("fn") == "delta":
        return case.get("w", 0) >= 57
    return False


@pred("encode-bitpacked-32bit-accumulator-width-ge-25")
def _enc25(prop, case, f):
    return (f.get("func") == "encode_bitpacked" and f.get("kind") in ("decode_of_encode_differs", "encoder_output_decodes_differently")
            and (f.get("width") or 0) >= 25)


@pred("write-bitpacked1-bit-order-and-cursor")
def _wbp1(prop, case, f):
    # documented as np.packbits with an output array; packs the partial last byte shifted the wrong way and advances the input
    # cursor by count*4
    return f.get("func") == "write_bitpacked1" and f.get("kind") in ("values_differ", "input_cursor")


@pred("bitpacked-run-of-width-0-consumes-one-byte")
def _bp0(prop, case, f):
    # read_bitpacked pre-reads one input byte before looking at the width: a zero-width bit-packed run (no payload bytes)
    # swallows the header of the run that follows it
    if f.get("func") != "hybrid" or f.get("width") != 0 or f.get("kind") not in ("output_cursor", "values_differ", "input_cursor"):
        return False
    plan = f.get("plan") or []
    return any(k == "bp" and i < len(plan) - 1 for i, (k, n) in enumerate(plan))


@pred("thrift-serialisation-buffer-overflow")
def _thrift_buf(prop, case, f):
    # ThriftObject.to_bytes allocates max(500000, 1000*ncols*nrgs + len(str(key_values))) bytes and write_thrift memcpy()s strings
    # into it without a bounds check: any metadata whose serialised form is larger (long statistics, names, paths, created_by)
    # corrupts the heap (abort / segfault)
    if prop == "C16":
        # _common_metadata has no row groups: the buffer is exactly len(str(key_values)) when that exceeds 500000, with no room for
        # the schema and the remaining fields
        return f.get("kind") in ("process_crash", "hang") and case.get("big") is True and case.get("target") == "_metadata"
    if f.get("kind") in ("process_crash", "hang") and case.get("biglist") == "columns":
        # a row group with far more column chunks than the schema has columns: the estimate 1000 * len(schema) * len(row_groups)
        # does not grow with it (>= 20 bytes per serialised chunk)
        return case.get("length", 0) * 20 >= 499000
    if f.get("kind") not in ("process_crash", "hang") or "big" not in case or case.get("big") == "kv_value":
        return False
    est = case["size"] * (1.5 if case["big"] == "statistics_max" else 1.0)
    return est >= 499000


@pred("thrift-long-form-field-header-misparsed")
def _thrift_long(prop, case, f):
    # read_thrift adds the 4-bit delta to the field id and never reads the zigzag id that follows a header with delta 0
    return bool(case.get("long_form")) and case.get("route") == "foreign"


@pred("thrift-field-ids-ge-14-dropped")
def _thrift_14(prop, case, f):
    # write_thrift loops `for i in range(1, 14)`: ColumnMetaData.bloom_filter_offset (14) and LogicalType.UUID (14) vanish on re-serialisation
    if f.get("kind") == "value_changed" and f.get("got") == "<absent>":
        return f.get("path", "").endswith((".bloom_filter_offset", ".UUID", ".bloom_filter_length"))
    if f.get("kind") == "idl_violation" and f.get("code") == "UNION_ARITY":
        return f.get("lost_members") == ["UUID"] and "0 fields set" in f.get("detail", "")
    return False


@pred("thrift-i8-i16-fields-reemitted-as-i64")
def _thrift_small(prop, case, f):
    # read_thrift stores i8 / i16 values as plain ints without remembering their width (i8 additionally as unsigned byte);
    # write_thrift emits every int as i32 or i64
    if f.get("kind") == "idl_violation" and f.get("code") == "WIRE_TYPE":
        return f.get("where", "").endswith(("IntType.bitWidth", "RowGroup.ordinal")) and ("found 6" in f.get("detail", "") or "found 5" in f.get("detail", ""))
    if f.get("kind") == "value_changed" and f.get("path", "").endswith(".bitWidth"):
        try:
            return int(f["expected"]) < 0 and int(f["got"]) == int(f["expected"]) + 256
        except Exception:
            return False
    return False


@pred("categorical-null-in-required-column-written-as-index-minus-1")
def _cat_minus1(prop, case, f):
    # write_column writes data.cat.codes as they are: in a column without definition levels (has_nulls False / 'infer' / not listed)
    # a missing cell becomes dictionary index -1 = 255 / 65535 / 2^32-1, which is outside the dictionary
    if prop == "C17":
        # seen from the reader's side: the schema says REQUIRED, so the handle predicts a plain integer dtype for the labels although
        # cells are missing (the default, categorical read shows them through code -1)
        return (f.get("kind") == "predicted_dtype_cannot_hold_the_missing_values_of_the_column" and f.get("declared_required") is True
                and f.get("default_read_dtype") == "category")
    if f.get("kind") != "invalid_parquet" or f.get("code") != "DICT_INDEX":
        return False
    d = f.get("detail", "")
    return d.startswith(("index 255 out of range", "index 65535 out of range", "index 4294967295 out of range")) and f.get("has_nulls") is not True


@pred("int96-chunks-carry-min-max")
def _int96_stats(prop, case, f):
    # the format defines no order for INT96, so such chunks should carry no min/max; write_column computes them for every datetime column
    return f.get("kind") == "minmax_for_type_without_order" and f.get("ptype") == "INT96"


@pred("delta-page-without-values-reads-a-nonexistent-block")
def _delta0(prop, case, f):
    # delta_binary_unpack always reads a block header (min delta + width bytes) after the page header, also when the page holds 0
    # values (an all-null page) and the stream ends right after the header: it runs past the buffer (segmentation fault)
    if f.get("kind") != "process_crash":
        return False
    return any(c.get("encoding") == "DELTA_BINARY_PACKED" and not c.get("use_dict") and c.get("optional") and c.get("nulls") not in (None, "none")
               for c in (case.get("recipe") or {}).get("columns", []))


@pred("list-row-continuation-of-only-nulls-dropped")
def _cont_nulls(prop, case, f):
    # _assemble_objects merges the start of a page into the previous page's last row only `if vali > 0` (a real value was seen):
    # when the continued part of the row consists of null elements only, it is not merged - and, not being cleared either, it is
    # prepended to the next row (for a MAP the value list shifts against the key list)
    return (f.get("kind") == "rows_differ" and f.get("page_version") == 1 and not f.get("single_page") and f.get("elem_optional")
            and f.get("only_trailing_null_elements_missing") is True)


@pred("v2-nested-pages-not-functional")
def _v2_nested(prop, case, f):
    # read_data_page_v2 handles repetition levels only in its dictionary branch ("TODO: probably not functional"): definition levels
    # are read only when the page has nulls (UnboundLocalError otherwise), PLAIN nested pages are scattered as if flat (shape errors),
    # and the hard-coded null/null_val flags turn empty lists into None and drop null elements
    if prop == "C15" and f.get("kind") == "process_crash" and case.get("page_version") in (2, [1, 2]):
        return True
    if prop != "C15" or f.get("page_version") not in (2, [1, 2]):
        return False
    return f.get("kind") in ("read_raised", "rows_differ", "row_count", "assemble_objects_return_value", "process_crash", "column_missing")


# ----------------------------------------------------------------------------- C12: sanitizer reports
# A sanitizer report names the faulting statement (function + .pyx line through the Cython markers of the generated C), the kind of
# fault and - for UBSan - the operands.  That tuple IS the mechanism; the predicates below list, per known finding, the tuples that
# belong to it, plus the input class where the driver exposes it.  A report at another statement, of another kind, or (where stated)
# on another input class is not covered.

def _san(f, san, whats, func, lines, access=None, msg=None):
    if f.get("kind") != "sanitizer_report" or f.get("san") != san or f.get("what") not in whats:
        return False
    if f.get("func") != func or f.get("pyx_line") not in lines:
        return False
    if access is not None and f.get("access") != access:
        return False
    if msg is not None and not any(m in (f.get("msg") or "") for m in msg):
        return False
    return True


def _thrift_big(case):
    inner = case.get("inner") or {}
    if case.get("driver") == "c10" and inner.get("biglist") == "columns":
        return inner.get("length", 0) * 20 >= 499000
    if case.get("driver") != "c10" or "big" not in inner or inner.get("big") == "kv_value":
        return False
    return inner["size"] * (1.5 if inner["big"] == "statistics_max" else 1.0) >= 499000


def _c12(key, case, f):
    k = f.get("kind")
    if key == "thrift-serialisation-buffer-overflow":
        if not _thrift_big(case):
            return False
        if k == "inner_oracle_failed_under_sanitised_build":
            # under ASan the overrun lands in a red zone instead of killing the process: to_bytes then returns the truncated buffer
            return True
        if k != "sanitizer_report" or f.get("san") != "asan":
            return False
        if f.get("what") in ("heap-buffer-overflow", "memcpy-param-overlap:") and f.get("func") in ("write_thrift", "write_list") and f.get("pyx_line") in (643, 651, 692, 705):
            return True
        # ... and the driver's attempt to parse that truncated output back runs off its end (read side trusts the lengths it reads)
        return f.get("what") == "heap-buffer-overflow" and f.get("access") == "READ" and f.get("func") in ("read_thrift", "read_list", "NumpyIO_read_byte", "read_unsigned_var_int")
    if key == "thrift-long-form-field-header-misparsed":
        # once a long-form field header has been misread the parser is out of step with the input: the lengths it then takes from
        # the wrong bytes make it read past the end of the buffer (the read side never checks a length against what is left)
        inner = case.get("inner") or {}
        return (case.get("driver") == "c10" and bool(inner.get("long_form")) and inner.get("route") == "foreign"
                and k == "sanitizer_report" and f.get("san") == "asan" and f.get("what") == "heap-buffer-overflow" and f.get("access") == "READ"
                and f.get("func") in ("read_thrift", "read_list", "NumpyIO_read_byte", "read_unsigned_var_int", "NumpyIO_read"))
    if key == "bit-unpack-32bit-accumulator-width-ge-25":
        return _san(f, "ubsan", ("shift-exponent",), "read_bitpacked", (155,), msg=("shift exponent 32",))
    if key == "int32-shift-arithmetic-in-bit-unpacking":
        return (_san(f, "ubsan", ("shift-base",), "read_bitpacked", (155,), msg=("by 24 places",))
                or _san(f, "ubsan", ("shift-base", "shift-exponent", "signed-integer-overflow"), "_mask_for_bits", (66,),
                        msg=("left shift of 1 by 31", "shift exponent 32", "-2147483648 - 1"))
                or _san(f, "ubsan", ("shift-base",), "read_rle", (38,), msg=("by 24 places",)))
    if key == "encode-bitpacked-32bit-accumulator-width-ge-25":
        return _san(f, "ubsan", ("shift-base", "shift-exponent"), "encode_bitpacked", (303,))
    if key == "write-bitpacked1-signed-char-shift":
        return _san(f, "ubsan", ("shift-base",), "write_bitpacked1", (113,), msg=("left shift of negative value",))
    if key == "zigzag-and-varint-signed-shifts":
        return (_san(f, "ubsan", ("shift-base",), "long_zigzag", (520,)) or
                _san(f, "ubsan", ("shift-base",), "read_unsigned_var_int", (184,), msg=("by 63 places",)))
    if key == "delta-unpack-miniblock-width-ge-29":
        return _san(f, "ubsan", ("shift-exponent",), "delta_read_bitpacked", (225,), msg=("shift exponent 64",))
    if key == "bitpacked-run-of-width-0-consumes-one-byte":
        return _san(f, "asan", ("heap-buffer-overflow",), "read_bitpacked", (147,), access="READ") and f.get("size") == 1
    if key == "bit-unpack-reads-past-short-final-group":
        if not (_san(f, "asan", ("heap-buffer-overflow",), "read_bitpacked", (155,), access="READ") and f.get("size") == 1):
            return False
        inner = case.get("inner") or {}
        # only streams whose last group of 8 is not padded: what encode_bitpacked itself emits, and what impala wrote into test-data
        return (case.get("driver") == "c11" and inner.get("fn") in ("encode_bitpacked", "writer_side")) or case.get("driver") in ("corpus", "c01")
    if key == "delta-page-without-values-reads-a-nonexistent-block":
        if f.get("kind") != "sanitizer_report" or f.get("san") != "asan" or f.get("what") != "heap-buffer-overflow" or f.get("access") != "READ":
            return False
        if f.get("func") == "delta_binary_unpack" and f.get("pyx_line") in (253, 254, 256):
            return True
        return f.get("func") in ("read_unsigned_var_int", "NumpyIO_read") and "delta_binary_unpack" in (f.get("via") or [])[:3] and f.get("pyx_line") in (182, 253, 254)
    return False


for _k in ("int32-shift-arithmetic-in-bit-unpacking", "write-bitpacked1-signed-char-shift", "zigzag-and-varint-signed-shifts",
           "bit-unpack-reads-past-short-final-group"):
    PREDICATES[_k] = (lambda key: (lambda prop, case, f: prop == "C12" and _c12(key, case, f)))(_k)

for _k in ("thrift-serialisation-buffer-overflow", "thrift-long-form-field-header-misparsed", "bit-unpack-32bit-accumulator-width-ge-25", "encode-bitpacked-32bit-accumulator-width-ge-25",
           "delta-unpack-miniblock-width-ge-29", "bitpacked-run-of-width-0-consumes-one-byte", "delta-page-without-values-reads-a-nonexistent-block"):
    PREDICATES[_k] = (lambda key, old: (lambda prop, case, f: _c12(key, case, f) if (prop == "C12" and f.get("kind") in ("sanitizer_report", "inner_oracle_failed_under_sanitised_build")) else old(prop, case, f)))(_k, PREDICATES[_k])
