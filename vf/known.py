"""Known-finding classifier (DESIGN.md 3).

known_findings.json is committed and read-only at run time.  Every entry names a MECHANISM
(key); the predicate for the key lives here and encodes the necessary conditions of that
mechanism plus the failure shape.  Only status == "open" suppresses.
"""
import json
import os

from . import ROOT

PREDICATES = {}


def pred(key):
    def deco(fn):
        PREDICATES[key] = fn
        return fn
    return deco


def load():
    p = os.path.join(ROOT, "known_findings.json")
    if not os.path.exists(p):
        return {"findings": []}
    with open(p) as f:
        return json.load(f)


def classify(prop, case, failure, kf):
    if prop == "C12" and isinstance(case.get("inner"), dict) and case.get("driver_prop") and failure.get("kind") in ("process_crash", "hang"):
        # C12 re-executes the case bodies of other drivers under the sanitised build: a worker death there is the same event as the
        # death the driver's own check already keys (by mechanism); sanitizer reports have their own predicates below
        key = classify(case["driver_prop"], case["inner"], failure, kf)
        if key:
            return key
    for ent in kf.get("findings", []):
        if ent.get("status") != "open":
            continue
        if prop not in ent.get("properties", [ent.get("property")]):
            continue
        fn = PREDICATES.get(ent["key"])
        if fn is None:
            continue
        try:
            if fn(prop, case, failure):
                return ent["key"]
        except Exception:
            continue
    return None


def describe(key, kf):
    for ent in kf.get("findings", []):
        if ent["key"] == key:
            return ent.get("what", "")
    return ""


# ----------------------------------------------------------------------------- predicates
# (filled in as findings are reproduced by the checks; see known_findings.json)

from . import known_preds  # noqa: E402,F401
