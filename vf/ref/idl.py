"""refpq: parser for the Parquet Thrift IDL (spec/parquet.thrift) -> struct / union / enum tables."""
import os
import re

HERE = os.path.dirname(os.path.abspath(__file__))
SPEC = os.path.join(os.path.dirname(os.path.dirname(HERE)), "spec", "parquet.thrift")

BASE = {"bool", "byte", "i8", "i16", "i32", "i64", "double", "binary", "string"}


class IDL:
    def __init__(self, text):
        self.enums = {}      # name -> {symbol: value}
        self.structs = {}    # name -> list of field dicts (id, name, type, req) ; type = base name | ("list", T) | struct/enum name
        self.unions = set()
        self._parse(text)

    def _parse(self, text):
        text = re.sub(r"/\*.*?\*/", "", text, flags=re.S)
        text = re.sub(r"//[^\n]*", "", text)
        text = re.sub(r"#[^\n]*", "", text)
        for m in re.finditer(r"\benum\s+(\w+)\s*\{(.*?)\}", text, flags=re.S):
            vals = {}
            nxt = 0
            for item in re.split(r"[;,\n]", m.group(2)):
                item = item.strip()
                if not item:
                    continue
                mm = re.match(r"(\w+)\s*(?:=\s*(\d+))?", item)
                if mm.group(2) is not None:
                    nxt = int(mm.group(2))
                vals[mm.group(1)] = nxt
                nxt += 1
            self.enums[m.group(1)] = vals
        for m in re.finditer(r"\b(struct|union)\s+(\w+)\s*\{(.*?)\}", text, flags=re.S):
            kind, name, body = m.groups()
            fields = []
            for fm in re.finditer(r"(\d+)\s*:\s*(required|optional)?\s*([\w<>\s,]+?)\s+(\w+)\s*(?:=\s*[^;,\n]+)?\s*[;,]?\s*(?=\d+\s*:|$)", body, flags=re.S):
                fid, req, typ, fname = fm.groups()
                typ = typ.strip()
                lm = re.match(r"list\s*<\s*(\w+)\s*>", typ)
                t = ("list", lm.group(1)) if lm else typ
                fields.append({"id": int(fid), "name": fname, "type": t, "req": (req or ("optional" if kind == "union" else "default"))})
            self.structs[name] = fields
            if kind == "union":
                self.unions.add(name)

    def wire(self, t):
        """Compact-protocol type nibble expected for IDL type t (bool -> (1, 2))."""
        if isinstance(t, tuple):
            return (9,)
        if t == "bool":
            return (1, 2)
        if t in ("byte", "i8"):
            return (3,)
        if t == "i16":
            return (4,)
        if t == "i32" or t in self.enums:
            return (5,)
        if t == "i64":
            return (6,)
        if t == "double":
            return (7,)
        if t in ("binary", "string"):
            return (8,)
        if t in self.structs:
            return (12,)
        raise KeyError(t)

    def elem_wire(self, t):
        w = self.wire(t)
        return 1 if t == "bool" else w[0]

    def field(self, struct, fid):
        for f in self.structs[struct]:
            if f["id"] == fid:
                return f
        return None


_cache = {}


def load(path=None):
    path = path or SPEC
    if path not in _cache:
        with open(path) as f:
            _cache[path] = IDL(f.read())
    return _cache[path]


def diff(a, b):
    """Differences between two IDLs in field ids / types (used to report drift of the repo's copy)."""
    out = []
    for s in sorted(set(a.structs) | set(b.structs)):
        fa = {f["id"]: (f["name"], f["type"]) for f in a.structs.get(s, [])}
        fb = {f["id"]: (f["name"], f["type"]) for f in b.structs.get(s, [])}
        if fa != fb:
            out.append((s, sorted(set(fa.items()) ^ set(fb.items()))))
    return out
