"""refpq: strict Parquet reader + structural validator, written from the format documents; no fastparquet imports.

read_file(path_or_bytes) -> FileInfo with .diags (MUST-level diagnostics), .notes, .columns (logical values), .meta.
"""
import os
import struct
import zlib

from . import compact as CP
from . import encodings as E
from . import idl as IDLMOD

MAGIC = b"PAR1"
TYPES = ["BOOLEAN", "INT32", "INT64", "INT96", "FLOAT", "DOUBLE", "BYTE_ARRAY", "FIXED_LEN_BYTE_ARRAY"]
ENC = {0: "PLAIN", 2: "PLAIN_DICTIONARY", 3: "RLE", 4: "BIT_PACKED", 5: "DELTA_BINARY_PACKED", 6: "DELTA_LENGTH_BYTE_ARRAY",
       7: "DELTA_BYTE_ARRAY", 8: "RLE_DICTIONARY", 9: "BYTE_STREAM_SPLIT"}
CODEC = {0: "UNCOMPRESSED", 1: "SNAPPY", 2: "GZIP", 3: "LZO", 4: "BROTLI", 5: "LZ4", 6: "ZSTD", 7: "LZ4_RAW"}
PAGE = {0: "DATA_PAGE", 1: "INDEX_PAGE", 2: "DICTIONARY_PAGE", 3: "DATA_PAGE_V2"}
REQUIRED, OPTIONAL, REPEATED = 0, 1, 2


class Unsupported(Exception):
    pass


def decompress(codec, data, size):
    name = CODEC.get(codec)
    if name == "UNCOMPRESSED":
        return bytes(data)
    if name == "GZIP":
        return zlib.decompress(bytes(data), 16 + zlib.MAX_WBITS)
    import cramjam     # shared with the system under test: trusted (stated in every evidence file)
    if name == "SNAPPY":
        return bytes(cramjam.snappy.decompress_raw(bytes(data)))
    if name == "ZSTD":
        return bytes(cramjam.zstd.decompress(bytes(data)))
    if name == "BROTLI":
        return bytes(cramjam.brotli.decompress(bytes(data)))
    if name in ("LZ4", "LZ4_RAW"):
        return bytes(cramjam.lz4.decompress_block(bytes(data), output_len=size))
    raise Unsupported("codec %r" % (name or codec))


class SchemaNode:
    def __init__(self, se):
        self.se = se
        self.name = se["name"].decode("utf8", "replace") if isinstance(se["name"], bytes) else se["name"]
        self.children = []
        self.rep = se.get("repetition_type")
        self.type = se.get("type")

    @property
    def is_leaf(self):
        return not self.se.get("num_children")


def build_schema(elements, diags):
    """Flat depth-first list -> tree.  Returns (root, leaves{path tuple: (node chain)})."""
    pos = [0]

    def rec():
        if pos[0] >= len(elements):
            diags.append(("SCHEMA_SHORT", "schema", "num_children promise more elements than present"))
            return None
        node = SchemaNode(elements[pos[0]])
        pos[0] += 1
        for _ in range(node.se.get("num_children") or 0):
            ch = rec()
            if ch is not None:
                node.children.append(ch)
        return node

    root = rec()
    if pos[0] != len(elements):
        diags.append(("SCHEMA_EXTRA", "schema", "%d schema elements are not reachable from the root" % (len(elements) - pos[0])))
    leaves = {}

    def walk(node, chain):
        for ch in node.children:
            c2 = chain + [ch]
            if ch.is_leaf:
                leaves[tuple(n.name for n in c2)] = c2
            else:
                walk(ch, c2)

    if root is not None:
        walk(root, [])
    return root, leaves


def levels(chain):
    max_def = sum(1 for n in chain if n.rep != REQUIRED)
    max_rep = sum(1 for n in chain if n.rep == REPEATED)
    return max_def, max_rep


class ColumnData:
    def __init__(self, path, chain):
        self.path = path
        self.chain = chain
        self.leaf = chain[-1]
        self.max_def, self.max_rep = levels(chain)
        self.defs = []       # per value slot
        self.reps = []
        self.values = []     # non-null physical values, in order
        self.chunks = []     # per row group: dict(stats..., n_values, nulls, pages, encodings_used)


class FileInfo:
    def __init__(self):
        self.diags = []
        self.notes = []
        self.meta = None
        self.columns = {}
        self.num_rows = 0
        self.row_group_rows = []
        self.footer_start = None
        self.footer_len = None
        self.counts = {"pages": 0, "dict_pages": 0, "v2_pages": 0, "chunks": 0, "footers": 0}

    def diag(self, code, where, detail=""):
        self.diags.append((code, where, detail))


def parse_footer(data, info):
    n = len(data)
    if n < 12:
        info.diag("FILE_TOO_SHORT", "file", "%d bytes" % n)
        return None
    if data[:4] != MAGIC:
        info.diag("MAGIC_HEAD", "file", repr(bytes(data[:4])))
    if data[-4:] != MAGIC:
        info.diag("MAGIC_TAIL", "file", repr(bytes(data[-4:])))
        return None
    (flen,) = struct.unpack("<I", data[-8:-4])
    if flen + 12 > n:
        info.diag("FOOTER_LEN", "file", "footer length %d does not fit a file of %d bytes" % (flen, n))
        return None
    start = n - 8 - flen
    info.footer_start, info.footer_len = start, flen
    fmd, end, diags = CP.parse(data[start:n - 8], "FileMetaData", IDLMOD.load())
    for d in diags:
        info.diags.append(d)
    info.counts["footers"] += 1
    return fmd


def read_file(src, data_dir=None, check_pages=True):
    """src: path or bytes.  For a file whose chunks carry file_path (a _metadata file) the chunks are read from data_dir/file_path."""
    info = FileInfo()
    if isinstance(src, (bytes, bytearray, memoryview)):
        data = bytes(src)
        base = data_dir
    else:
        with open(src, "rb") as f:
            data = f.read()
        base = data_dir if data_dir is not None else os.path.dirname(src)
    fmd = parse_footer(data, info)
    info.meta = fmd
    if fmd is None:
        return info
    root, leaves = build_schema(fmd.get("schema") or [], info.diags)
    info.schema_root, info.leaves = root, leaves
    for path, chain in leaves.items():
        info.columns[path] = ColumnData(path, chain)
    rgs = fmd.get("row_groups") or []
    total = 0
    other_files = {}
    prev_end = 4
    for gi, rg in enumerate(rgs):
        nrows = rg.get("num_rows", 0)
        total += nrows
        info.row_group_rows.append(nrows)
        seen_paths = set()
        tbs = 0
        for ci, cc in enumerate(rg.get("columns") or []):
            md = cc.get("meta_data")
            where = "rg%d.col%d" % (gi, ci)
            fp = cc.get("file_path")
            if md is None:
                info.diag("NO_COLUMN_METADATA", where)
                continue
            path = tuple(p.decode("utf8", "replace") if isinstance(p, bytes) else p for p in md.get("path_in_schema") or [])
            where = "rg%d.%s" % (gi, ".".join(path))
            if path not in info.columns:
                info.diag("UNKNOWN_COLUMN_PATH", where, "path_in_schema not a leaf of the schema")
                continue
            seen_paths.add(path)
            tbs += md.get("total_uncompressed_size", 0)
            if not check_pages:
                continue
            if fp:
                fps = fp.decode() if isinstance(fp, bytes) else fp
                full = os.path.join(base or ".", fps)
                if full not in other_files:
                    try:
                        with open(full, "rb") as f:
                            other_files[full] = f.read()
                    except OSError as e:
                        info.diag("FILE_PATH_MISSING", where, "%s: %s" % (fps, e))
                        other_files[full] = None
                buf = other_files[full]
                if buf is None:
                    continue
                limit = len(buf) - 8
            else:
                buf = data
                limit = info.footer_start
            try:
                read_chunk(info, buf, limit, md, info.columns[path], nrows, where)
            except Unsupported as e:
                info.notes.append(("UNSUPPORTED", where, str(e)))
                info.columns[path].chunks.append({"unsupported": str(e)})
            except (E.DecodeError, CP.ThriftError) as e:
                info.diag("DECODE", where, str(e)[:200])
            info.counts["chunks"] += 1
        missing = set(info.columns) - seen_paths
        if missing and rg.get("columns"):
            info.diag("MISSING_COLUMN_CHUNK", "rg%d" % gi, "no chunk for %s" % sorted(".".join(p) for p in missing)[:3])
        if rg.get("total_byte_size") is not None and rg.get("columns") and rg["total_byte_size"] != tbs:
            info.diag("ROW_GROUP_BYTE_SIZE", "rg%d" % gi, "total_byte_size %d != sum of chunks' total_uncompressed_size %d" % (rg["total_byte_size"], tbs))
    info.num_rows = total
    if fmd.get("num_rows") != total:
        info.diag("NUM_ROWS", "file", "FileMetaData.num_rows %r != sum of row groups %d" % (fmd.get("num_rows"), total))
    return info


def read_chunk(info, buf, limit, md, col, nrows, where):
    ptype = TYPES[md["type"]] if 0 <= md.get("type", -1) < len(TYPES) else None
    leaf = col.leaf
    if leaf.type != md.get("type"):
        info.diag("TYPE_MISMATCH", where, "chunk type %r != schema type %r" % (md.get("type"), leaf.type))
    dpo = md.get("dictionary_page_offset")
    dao = md.get("data_page_offset")
    start = dpo if dpo else dao
    if dpo is not None and dpo and dpo >= dao:
        info.diag("DICT_OFFSET", where, "dictionary_page_offset %d does not precede data_page_offset %d" % (dpo, dao))
    tcs = md.get("total_compressed_size", 0)
    if start is None or start < 4 or start + tcs > limit:
        info.diag("CHUNK_RANGE", where, "chunk [%r, +%d) outside the data area [4, %d)" % (start, tcs, limit))
        return
    pos = start
    end = start + tcs
    codec = md.get("codec", 0)
    if codec not in CODEC:
        info.diag("CODEC", where, "unknown codec %r" % codec)
        raise Unsupported("codec %r" % codec)
    dictionary = None
    unc_total = 0
    n_slots = 0
    n_nulls = 0
    encs_used = set()
    first_data_pos = None
    pages = []
    page_kinds = []     # (page_type, encoding) of every page, for encoding_stats
    tlen = leaf.se.get("type_length")
    chunk_vals_start = len(col.values)
    chunk_def_start = len(col.defs)
    while pos < end:
        ph, hend, diags = CP.parse(buf, "PageHeader", IDLMOD.load(), pos=pos, exact=False)
        if ph is None:
            info.diag("PAGE_HEADER", where, "at %d: %s" % (pos, diags[0][2] if diags else ""))
            return
        for d in diags:
            info.diags.append((d[0], where + "." + d[1], d[2]))
        hlen = hend - pos
        csz, usz = ph.get("compressed_page_size", 0), ph.get("uncompressed_page_size", 0)
        if csz < 0 or hend + csz > end:
            info.diag("PAGE_TILING", where, "page at %d (header %d + payload %d) runs past the chunk end %d" % (pos, hlen, csz, end))
            return
        payload = buf[hend:hend + csz]
        unc_total += hlen + usz
        ptyp = PAGE.get(ph.get("type"))
        info.counts["pages"] += 1
        if ptyp == "DICTIONARY_PAGE":
            info.counts["dict_pages"] += 1
            if pages:
                info.diag("DICT_NOT_FIRST", where, "dictionary page after a data page")
            if not dpo and dao != pos:
                pass
            if dpo is not None and dpo and pos != dpo:
                info.diag("DICT_OFFSET", where, "dictionary page found at %d, dictionary_page_offset says %d" % (pos, dpo))
            if not dpo:
                info.notes.append(("DICT_OFFSET_UNSET", where, "dictionary page present but dictionary_page_offset not set"))
            dh = ph.get("dictionary_page_header") or {}
            raw = decompress(codec, payload, usz)
            if len(raw) != usz:
                info.diag("SIZE_UNCOMP", where, "dictionary page inflates to %d bytes, header says %d" % (len(raw), usz))
            if ENC.get(dh.get("encoding")) not in ("PLAIN", "PLAIN_DICTIONARY"):
                raise Unsupported("dictionary page encoding %r" % dh.get("encoding"))
            dictionary, p2 = E.plain_decode(ptype, raw, dh.get("num_values", 0), 0, tlen)
            if p2 != len(raw):
                info.notes.append(("DICT_TRAILING", where, "%d bytes after the dictionary values" % (len(raw) - p2)))
            encs_used.add(dh.get("encoding"))
            page_kinds.append((ph.get("type"), dh.get("encoding")))
            pages.append(("dict", dh.get("num_values", 0)))
        elif ptyp in ("DATA_PAGE", "DATA_PAGE_V2"):
            if first_data_pos is None:
                first_data_pos = pos
                if dao != pos:
                    info.diag("DATA_OFFSET", where, "first data page at %d, data_page_offset says %d" % (pos, dao))
            v2 = ptyp == "DATA_PAGE_V2"
            h = ph.get("data_page_header_v2" if v2 else "data_page_header")
            if h is None:
                info.diag("PAGE_HEADER", where, "page type %s without its header struct" % ptyp)
                return
            nv = h.get("num_values", 0)
            enc = ENC.get(h.get("encoding"))
            encs_used.add(h.get("encoding"))
            page_kinds.append((ph.get("type"), h.get("encoding")))
            if v2:
                info.counts["v2_pages"] += 1
                rl, dl = h.get("repetition_levels_byte_length", 0), h.get("definition_levels_byte_length", 0)
                if rl + dl > csz:
                    info.diag("LEVEL_LEN", where, "level byte lengths %d+%d exceed the page payload %d" % (rl, dl, csz))
                    return
                rep_bytes, def_bytes, body = payload[:rl], payload[rl:rl + dl], payload[rl + dl:]
                compressed = h.get("is_compressed")
                compressed = True if compressed is None else compressed
                raw = decompress(codec, body, usz - rl - dl) if compressed else bytes(body)
                if len(raw) != usz - rl - dl:
                    info.diag("SIZE_UNCOMP", where, "v2 page data inflates to %d bytes, header implies %d" % (len(raw), usz - rl - dl))
                reps = _levels(info, rep_bytes, col.max_rep, nv, where, "repetition", prefixed=False)
                defs = _levels(info, def_bytes, col.max_def, nv, where, "definition", prefixed=False)
                if col.max_def == 0 and dl:
                    info.diag("LEVEL_LEN", where, "definition levels present for a column without optional ancestors")
                vpos = 0
                nn = sum(1 for d in defs if d == col.max_def) if col.max_def else nv
                if h.get("num_nulls") is not None and col.max_rep == 0 and h["num_nulls"] != nv - nn:
                    info.diag("NUM_NULLS", where, "v2 header num_nulls %d, levels say %d" % (h["num_nulls"], nv - nn))
                if col.max_rep == 0 and h.get("num_rows") is not None and h["num_rows"] != nv:
                    info.diag("NUM_ROWS_PAGE", where, "v2 header num_rows %d != num_values %d on a flat column" % (h["num_rows"], nv))
            else:
                raw = decompress(codec, payload, usz)
                if len(raw) != usz:
                    info.diag("SIZE_UNCOMP", where, "page inflates to %d bytes, header says %d" % (len(raw), usz))
                vpos = 0
                reps, vpos = _levels_v1(info, raw, vpos, col.max_rep, nv, where, "repetition", h.get("repetition_level_encoding"))
                defs, vpos = _levels_v1(info, raw, vpos, col.max_def, nv, where, "definition", h.get("definition_level_encoding"))
                nn = sum(1 for d in defs if d == col.max_def) if col.max_def else nv
            vals, vend = _values(info, raw, vpos, enc, ptype, nn, dictionary, tlen, where, v2)
            if vend != len(raw):
                extra = raw[vend:]
                if any(extra):
                    info.notes.append(("PAGE_TRAILING", where, "%d non-zero trailing bytes after the values" % len(extra)))
                else:
                    info.notes.append(("PAGE_PADDING", where, "%d zero bytes after the values" % len(extra)))
            col.values += vals
            col.defs += defs if col.max_def else [0] * nv
            col.reps += reps if col.max_rep else [0] * nv
            n_slots += nv
            n_nulls += nv - nn
            pages.append(("v2" if v2 else "v1", nv))
        elif ptyp == "INDEX_PAGE":
            pages.append(("index", 0))
        else:
            info.diag("PAGE_TYPE", where, "unknown page type %r" % ph.get("type"))
            return
        pos = hend + csz
    if pos != end:
        info.diag("PAGE_TILING", where, "pages end at %d, chunk ends at %d" % (pos, end))
    if md.get("total_uncompressed_size") != unc_total:
        info.diag("SIZE_UNCOMP_TOTAL", where, "total_uncompressed_size %r, headers + uncompressed pages make %d" % (md.get("total_uncompressed_size"), unc_total))
    if md.get("num_values") != n_slots:
        info.diag("NUM_VALUES", where, "chunk num_values %r, pages carry %d" % (md.get("num_values"), n_slots))
    if col.max_rep == 0 and n_slots != nrows:
        info.diag("NUM_VALUES_ROWS", where, "pages carry %d values, row group has %d rows" % (n_slots, nrows))
    if dpo and not any(p[0] == "dict" for p in pages):
        info.diag("DICT_OFFSET", where, "dictionary_page_offset set but the chunk has no dictionary page")
    declared = set(md.get("encodings") or [])
    if not encs_used <= declared:
        info.diag("ENCODINGS_LIST", where, "encodings used %s not all in ColumnMetaData.encodings %s" % (sorted(encs_used), sorted(declared)))
    es = md.get("encoding_stats")
    if es:
        actual = {}
        for pg in page_kinds:
            actual[pg] = actual.get(pg, 0) + 1
        claimed = {}
        for e_ in es:
            key = (e_.get("page_type"), e_.get("encoding"))
            claimed[key] = claimed.get(key, 0) + (e_.get("count") or 0)
        if claimed != actual:
            info.diag("ENCODING_STATS", where, "encoding_stats %s, pages present %s (page_type, encoding) -> count" % (sorted(claimed.items()), sorted(actual.items())))
    st = md.get("statistics")
    if st is not None and st.get("null_count") is not None and col.max_rep == 0 and st["null_count"] != n_nulls:
        info.diag("NULL_COUNT", where, "statistics.null_count %d, levels say %d" % (st["null_count"], n_nulls))
    col.chunks.append({"rows": nrows, "slots": n_slots, "nulls": n_nulls, "pages": pages, "statistics": st, "codec": CODEC.get(codec),
                       "values": (chunk_vals_start, len(col.values)), "defs": (chunk_def_start, len(col.defs)),
                       "encodings_used": sorted(encs_used), "ptype": ptype, "where": where})


def _levels(info, data, maxlevel, n, where, what, prefixed):
    if maxlevel == 0:
        return []
    w = E.width_for(maxlevel)
    try:
        vals, pos, runs = E.hybrid_decode(data, w, n)
    except E.DecodeError as e:
        info.diag("LEVEL_DECODE", where, "%s levels: %s" % (what, e))
        return [maxlevel] * n
    for r in runs:
        if r[3]:
            info.notes.append(("SHORT_BP_GROUP", where, "%s levels: padding of the last bit-packed group missing" % what))
    if pos != len(data):
        info.notes.append(("LEVEL_TRAILING", where, "%d unused bytes in the %s level block" % (len(data) - pos, what)))
    if any(v > maxlevel for v in vals):
        info.diag("LEVEL_RANGE", where, "%s level above the maximum %d" % (what, maxlevel))
    return vals


def _levels_v1(info, raw, pos, maxlevel, n, where, what, enc):
    if maxlevel == 0:
        return [], pos
    e = ENC.get(enc)
    if e == "BIT_PACKED":
        raise Unsupported("BIT_PACKED %s levels" % what)
    if e != "RLE":
        info.diag("LEVEL_ENCODING", where, "%s level encoding %r" % (what, enc))
    if pos + 4 > len(raw):
        info.diag("LEVEL_LEN", where, "no room for the %s level length prefix" % what)
        return [maxlevel] * n, pos
    (ln,) = struct.unpack_from("<I", raw, pos)
    pos += 4
    if pos + ln > len(raw):
        info.diag("LEVEL_LEN", where, "%s level block of %d bytes runs past the page" % (what, ln))
        return [maxlevel] * n, pos
    vals = _levels(info, raw[pos:pos + ln], maxlevel, n, where, what, True)
    return vals, pos + ln


def _values(info, raw, pos, enc, ptype, n, dictionary, tlen, where, v2):
    if enc == "PLAIN":
        return E.plain_decode(ptype, raw, n, pos, tlen)
    if enc in ("PLAIN_DICTIONARY", "RLE_DICTIONARY"):
        if dictionary is None:
            info.diag("NO_DICTIONARY", where, "dictionary-encoded page without a dictionary page")
            return [None] * n, len(raw)
        if n == 0 and pos >= len(raw):
            return [], pos
        if pos >= len(raw):
            info.diag("DICT_INDEX", where, "no bit-width byte")
            return [None] * n, pos
        w = raw[pos]
        pos += 1
        if w > 32:
            info.diag("DICT_INDEX", where, "index bit width %d" % w)
            return [None] * n, len(raw)
        try:
            idx, pos, runs = E.hybrid_decode(raw, w, n, pos)
        except E.DecodeError as e:
            info.diag("SHORT_BP_GROUP", where, "dictionary indices: %s" % e)
            return [None] * n, len(raw)
        for r in runs:
            if r[3]:
                info.notes.append(("SHORT_BP_GROUP", where, "dictionary indices: padding of the last bit-packed group missing"))
        bad = [i for i in idx if i >= len(dictionary)]
        if bad:
            info.diag("DICT_INDEX", where, "index %d out of range (dictionary has %d entries)" % (bad[0], len(dictionary)))
            return [dictionary[i] if i < len(dictionary) else None for i in idx], pos
        return [dictionary[i] for i in idx], pos
    if enc == "RLE":
        if ptype != "BOOLEAN":
            raise Unsupported("RLE values for %s" % ptype)
        (ln,) = struct.unpack_from("<I", raw, pos)
        vals, p2, runs = E.hybrid_decode(raw, 1, n, pos + 4, pos + 4 + ln)
        return [bool(v) for v in vals], pos + 4 + ln
    if enc == "DELTA_BINARY_PACKED":
        if ptype not in ("INT32", "INT64"):
            raise Unsupported("DELTA_BINARY_PACKED for %s" % ptype)
        vals, p2, dinfo = E.delta_decode(raw, pos, 32 if ptype == "INT32" else 64)
        info.notes.append(("DELTA_WIDTH", where, max(dinfo["widths"] or [0])))
        if len(vals) != n:
            info.diag("NUM_VALUES", where, "delta block carries %d values, page needs %d" % (len(vals), n))
        return vals[:n] + [None] * (n - len(vals)), p2
    raise Unsupported("encoding %s" % enc)


# ---------------------------------------------------------------------------------------------- logical view

CT = {0: "UTF8", 1: "MAP", 2: "MAP_KEY_VALUE", 3: "LIST", 4: "ENUM", 5: "DECIMAL", 6: "DATE", 7: "TIME_MILLIS", 8: "TIME_MICROS",
      9: "TIMESTAMP_MILLIS", 10: "TIMESTAMP_MICROS", 11: "UINT_8", 12: "UINT_16", 13: "UINT_32", 14: "UINT_64", 15: "INT_8", 16: "INT_16",
      17: "INT_32", 18: "INT_64", 19: "JSON", 20: "BSON", 21: "INTERVAL"}


def logical_kind(se):
    """(kind, unit/extra) describing how physical values are to be interpreted."""
    ct = CT.get(se.get("converted_type")) if se.get("converted_type") is not None else None
    lt = se.get("logicalType") or {}
    if "TIMESTAMP" in lt:
        u = lt["TIMESTAMP"].get("unit") or {}
        unit = "ms" if "MILLIS" in u else ("us" if "MICROS" in u else "ns")
        return ("timestamp", unit, bool(lt["TIMESTAMP"].get("isAdjustedToUTC")))
    if ct == "TIMESTAMP_MILLIS":
        return ("timestamp", "ms", None)
    if ct == "TIMESTAMP_MICROS":
        return ("timestamp", "us", None)
    if ct in ("UTF8", "ENUM") or "STRING" in lt:
        return ("utf8",)
    if ct == "JSON" or "JSON" in lt:
        return ("json",)
    if ct in ("UINT_8", "UINT_16", "UINT_32", "UINT_64"):
        return ("uint", int(ct.split("_")[1]))
    if ct in ("INT_8", "INT_16", "INT_32", "INT_64"):
        return ("int", int(ct.split("_")[1]))
    if ct == "DATE":
        return ("date",)
    if ct == "TIME_MICROS":
        return ("time", "us")
    if ct == "TIME_MILLIS":
        return ("time", "ms")
    if ct == "DECIMAL":
        return ("decimal", se.get("scale", 0), se.get("precision"))
    return ("raw",)


def convert_value(v, ptype, kind):
    if v is None:
        return None
    k = kind[0]
    if ptype == "INT96":
        ns, day = struct.unpack("<qi", v)
        return ("tns", (day - 2440588) * 86400 * 10 ** 9 + ns)
    if k == "timestamp":
        return ("t" + kind[1], int(v))
    if k == "utf8":
        try:
            return ("s", v.decode("utf8"))
        except UnicodeDecodeError:
            return ("y", v)
    if k == "json":
        return ("json", v.decode("utf8", "replace"))
    if k == "uint":
        bits = 32 if ptype == "INT32" else 64
        return int(v) & ((1 << bits) - 1)
    if k == "int":
        return int(v)
    if k == "time":
        return ("d" + kind[1], int(v))
    if k == "date":
        return ("date", int(v))
    if ptype in ("FLOAT",):
        return ("f4", struct.unpack("<I", struct.pack("<f", v))[0])
    if ptype == "DOUBLE":
        return ("f8", struct.unpack("<Q", struct.pack("<d", v))[0])
    if ptype == "BOOLEAN":
        return ("b", bool(v))
    if ptype in ("BYTE_ARRAY", "FIXED_LEN_BYTE_ARRAY"):
        return ("y", bytes(v))
    return int(v)


def flat_column(col):
    """Logical cells of a flat column: list with None for NULL."""
    ptype = TYPES[col.leaf.type]
    kind = logical_kind(col.leaf.se)
    out = []
    it = iter(col.values)
    for d in col.defs:
        if col.max_def and d != col.max_def:
            out.append(None)
        else:
            out.append(convert_value(next(it), ptype, kind))
    return out


def assemble_nested(col):
    """Dremel assembly for one leaf of a LIST / MAP column: list per top-level row of (possibly None) element values; a row is None
    when the top-level group itself is null, [] when the repeated group is empty."""
    ptype = TYPES[col.leaf.type]
    kind = logical_kind(col.leaf.se)
    # definition level at which each ancestor is defined
    chain = col.chain
    dl = 0
    lvl_defined = []
    rep_index = None
    for i, n in enumerate(chain):
        if n.rep != REQUIRED:
            dl += 1
        lvl_defined.append(dl)
        if n.rep == REPEATED and rep_index is None:
            rep_index = i
    top_def = lvl_defined[0] if chain[0].rep != REQUIRED else 0          # def level meaning "top group present"
    rep_def = lvl_defined[rep_index]                                       # def level meaning "an element exists"
    rows = []
    it = iter(col.values)
    for d, r in zip(col.defs, col.reps):
        if r == 0:
            if chain[0].rep == OPTIONAL and d < top_def:
                rows.append(None)
                continue
            rows.append([])
        if d < rep_def:
            continue            # empty list (or null handled above)
        if d == col.max_def:
            rows[-1].append(convert_value(next(it), ptype, kind))
        else:
            rows[-1].append(None)
    return rows
