"""refpq: specification-level Parquet writer driven by an explicit spec (no fastparquet imports).

spec = {
  "codec": "UNCOMPRESSED"|"SNAPPY"|"GZIP"|"ZSTD"|"LZ4_RAW"|"BROTLI",
  "created_by": str, "kv": [(k, v)], "write_stats": bool,
  "columns": [ColSpec...],           # flat leaves or nested (LIST / MAP) columns
  "row_groups": [n_rows, ...],
}
ColSpec (flat) = {"name", "ptype", "converted": int|None, "logical": dict|None, "type_length": int|None, "optional": bool,
                  "rows": [physical value or None per row],
                  "use_dict": bool, "dict_fallback_page": int|None, "encoding": "PLAIN"|"RLE"|"DELTA_BINARY_PACKED" (non-dict pages),
                  "dict_encoding_id": 2|8, "page_rows": [rows per page, cycled], "page_version": 1|2 or list (cycled),
                  "def_plan": "rle"|"bp"|"mixed", "idx_plan": "bp"|"rle"|"mixed", "v2_compressed": True|False|None,
                  "delta_shape": (block, miniblocks), "write_stats": bool}
ColSpec (nested) adds "nested": {"kind": "LIST"|"MAP", "top_optional": bool, "elem_optional": bool, ...} and rows = python lists/dicts;
                  pages of nested columns are cut at value positions ("page_values").
"""
import struct
import zlib

from . import compact as CP
from . import encodings as E
from . import idl as IDLMOD
from .reader import TYPES

CODEC_ID = {"UNCOMPRESSED": 0, "SNAPPY": 1, "GZIP": 2, "BROTLI": 4, "ZSTD": 6, "LZ4_RAW": 7, "LZ4": 5}


def compress(codec, data):
    if codec == "UNCOMPRESSED":
        return data
    if codec == "GZIP":
        co = zlib.compressobj(6, zlib.DEFLATED, 16 + zlib.MAX_WBITS)
        return co.compress(data) + co.flush()
    import cramjam
    if codec == "SNAPPY":
        return bytes(cramjam.snappy.compress_raw(data))
    if codec == "ZSTD":
        return bytes(cramjam.zstd.compress(data))
    if codec == "BROTLI":
        return bytes(cramjam.brotli.compress(data))
    if codec in ("LZ4_RAW", "LZ4"):
        return bytes(cramjam.lz4.compress_block(data, store_size=False))
    raise ValueError(codec)


def _cycle(v, i):
    if isinstance(v, (list, tuple)):
        return v[i % len(v)]
    return v


def _levels_bytes(levels, maxlevel, plan, rng_state):
    """Encode levels with the requested run plan kind."""
    w = E.width_for(maxlevel)
    n = len(levels)
    if n == 0:
        return b""
    if plan == "bp":
        return E.hybrid_encode(levels, w, [("bp", n)])
    # run-length groups
    runs = []
    i = 0
    while i < n:
        j = i
        while j < n and levels[j] == levels[i]:
            j += 1
        runs.append((i, j - i))
        i = j
    if plan == "rle":
        return E.hybrid_encode(levels, w, [("rle", ln) for _, ln in runs])
    # mixed: long runs as RLE, stretches of short runs as bit-packed groups of 8
    out_plan = []
    pend = 0
    for k, (st, ln) in enumerate(runs):
        if ln >= 8 and pend % 8 == 0:
            if pend:
                out_plan.append(("bp", pend))
                pend = 0
            out_plan.append(("rle", ln))
        else:
            pend += ln
    if pend:
        out_plan.append(("bp", pend))
    # only the last bp run may be partial: merge if needed
    fixed = []
    for kind, ln in out_plan:
        if fixed and fixed[-1][0] == "bp" and fixed[-1][1] % 8:
            fixed[-1] = ("bp", fixed[-1][1] + ln)
        else:
            fixed.append((kind, ln))
    return E.hybrid_encode(levels, w, fixed)


def _index_bytes(indices, width, plan):
    n = len(indices)
    if n == 0:
        return bytes([width])
    if plan == "bp":
        return bytes([width]) + E.hybrid_encode(indices, width, [("bp", n)])
    if plan == "rle":
        runs = []
        i = 0
        while i < n:
            j = i
            while j < n and indices[j] == indices[i]:
                j += 1
            runs.append(("rle", j - i))
            i = j
        return bytes([width]) + E.hybrid_encode(indices, width, runs)
    return bytes([width]) + _levels_bytes(indices, (1 << width) - 1 if width else 0, "mixed", None)


def stat_bytes(ptype, v, type_length):
    if ptype in ("BYTE_ARRAY", "FIXED_LEN_BYTE_ARRAY"):
        return bytes(v)
    if ptype == "BOOLEAN":
        return bytes([1 if v else 0])
    return E.plain_encode(ptype, [v], type_length)


def _order_key(ptype, converted):
    if ptype in ("INT32", "INT64"):
        if converted in (11, 12, 13, 14):
            bits = 32 if ptype == "INT32" else 64
            return lambda v: v & ((1 << bits) - 1)
        return lambda v: v
    if ptype in ("FLOAT", "DOUBLE"):
        return lambda v: v
    if ptype == "BOOLEAN":
        return lambda v: bool(v)
    if ptype in ("BYTE_ARRAY", "FIXED_LEN_BYTE_ARRAY"):
        return lambda v: bytes(v)
    return None


class ColumnWriter:
    def __init__(self, cs, codec, idl):
        self.cs = cs
        self.codec = codec
        self.idl = idl
        self.ptype = cs["ptype"]

    def chunk(self, out, slots, base_offset):
        """slots: list of (rep, def, value-or-None) for this row group.  Appends pages to `out`; returns ColumnChunk dict."""
        cs = self.cs
        ptype = self.ptype
        tlen = cs.get("type_length")
        max_def, max_rep = cs["max_def"], cs["max_rep"]
        values = [v for r, d, v in slots if d == max_def]
        start = base_offset + len(out)
        use_dict = cs.get("use_dict") and (values or cs.get("dict_when_empty"))
        dict_off = None
        encs = set()
        unc_total = 0
        dictionary = None
        npages = 0
        page_stats = []
        if use_dict:
            dictionary = []
            seen = {}
            for v in values:
                k = (v if not isinstance(v, float) else struct.pack("<d", v))
                if k not in seen:
                    seen[k] = len(dictionary)
                    dictionary.append(v)
            extra = cs.get("dict_extra", 0)       # unused entries, to force wider indices
            for i in range(extra):
                dictionary.append(cs["dict_filler"](i))
            if cs.get("dict_shuffle"):
                pass
            raw = E.plain_encode(ptype, dictionary, tlen)
            comp = compress(self.codec, raw)
            ph = {"type": 2, "uncompressed_page_size": len(raw), "compressed_page_size": len(comp),
                  "dictionary_page_header": {"num_values": len(dictionary), "encoding": 0 if cs.get("dict_encoding_id", 8) == 8 else 2}}
            hb = CP.encode(ph, "PageHeader", self.idl)
            dict_off = base_offset + len(out)
            out += hb + comp
            unc_total += len(hb) + len(raw)
            encs.add(ph["dictionary_page_header"]["encoding"])
            index_of = seen
        data_off = None
        # cut pages
        pos = 0
        pi = 0
        nslots = len(slots)
        total_nulls = 0
        while pos < nslots or (nslots == 0 and pi == 0):
            if nslots == 0:
                break
            want = _cycle(cs.get("page_rows", [10 ** 9]), pi)
            end = min(nslots, pos + max(1, want))
            version = _cycle(cs.get("page_version", 1), pi)
            if max_rep and version == 2:
                # v2 pages must start on a row boundary
                while end < nslots and slots[end][0] != 0:
                    end += 1
            page = slots[pos:end]
            pvals = [v for r, d, v in page if d == max_def]
            defs = [d for r, d, v in page]
            reps = [r for r, d, v in page]
            nn = len(pvals)
            total_nulls += len(page) - nn if not max_rep else 0
            dict_page = use_dict and (cs.get("dict_fallback_page") is None or pi < cs["dict_fallback_page"])
            if dict_page:
                idx = [index_of[(v if not isinstance(v, float) else struct.pack("<d", v))] for v in pvals]
                width = max(E.width_for(max(0, len(dictionary) - 1)), cs.get("min_index_width", 0))
                body = _index_bytes(idx, width, cs.get("idx_plan", "bp"))
                enc_id = cs.get("dict_encoding_id", 8)
            else:
                enc = cs.get("encoding", "PLAIN")
                if enc == "PLAIN":
                    body = E.plain_encode(ptype, pvals, tlen)
                    enc_id = 0
                elif enc == "RLE":
                    hb_ = _levels_bytes([1 if v else 0 for v in pvals], 1, cs.get("idx_plan", "mixed"), None) if pvals else b""
                    body = struct.pack("<I", len(hb_)) + hb_
                    enc_id = 3
                elif enc == "DELTA_BINARY_PACKED":
                    bs, mb = cs.get("delta_shape", (128, 4))
                    body = E.delta_encode(pvals, bs, mb, 32 if ptype == "INT32" else 64)
                    enc_id = 5
                else:
                    body = cs["raw_body"](pvals)
                    enc_id = cs["raw_encoding_id"]
            encs.add(enc_id)
            dplan = cs.get("def_plan", "rle")
            st = None
            if cs.get("page_stats"):
                st = {"null_count": len(page) - nn}
            if version == 1:
                lv = b""
                if max_rep:
                    rb = _levels_bytes(reps, max_rep, cs.get("rep_plan", "mixed"), None)
                    lv += struct.pack("<I", len(rb)) + rb
                if max_def:
                    db = _levels_bytes(defs, max_def, dplan, None)
                    lv += struct.pack("<I", len(db)) + db
                raw = lv + body + cs.get("v1_trailing", b"")
                comp = compress(self.codec, raw)
                dph = {"num_values": len(page), "encoding": enc_id, "definition_level_encoding": 3, "repetition_level_encoding": 3}
                if st:
                    dph["statistics"] = st
                ph = {"type": 0, "uncompressed_page_size": len(raw), "compressed_page_size": len(comp), "data_page_header": dph}
                payload = comp
                usz = len(raw)
            else:
                rb = _levels_bytes(reps, max_rep, cs.get("rep_plan", "mixed"), None) if max_rep else b""
                db = _levels_bytes(defs, max_def, dplan, None) if max_def else b""
                flag = cs.get("v2_compressed", True)
                do_comp = (flag is not False) and self.codec != "UNCOMPRESSED"
                cbody = compress(self.codec, body) if do_comp else body
                nrows = sum(1 for r in reps if r == 0) if max_rep else len(page)
                dph = {"num_values": len(page), "num_nulls": (len(page) - nn), "num_rows": nrows, "encoding": enc_id,
                       "definition_levels_byte_length": len(db), "repetition_levels_byte_length": len(rb)}
                if flag is not None:
                    dph["is_compressed"] = bool(do_comp)
                elif not do_comp:
                    dph["is_compressed"] = False
                ph = {"type": 3, "uncompressed_page_size": len(rb) + len(db) + len(body), "compressed_page_size": len(rb) + len(db) + len(cbody),
                      "data_page_header_v2": dph}
                payload = rb + db + cbody
                usz = len(rb) + len(db) + len(body)
            hb = CP.encode(ph, "PageHeader", self.idl)
            if data_off is None:
                data_off = base_offset + len(out)
            out += hb + payload
            unc_total += len(hb) + usz
            npages += 1
            pos = end
            pi += 1
        if data_off is None:
            data_off = base_offset + len(out)
        md = {"type": TYPES.index(ptype), "encodings": sorted(encs | ({3} if (max_def or max_rep) else set())), "path_in_schema": list(cs["path"]),
              "codec": CODEC_ID[self.codec], "num_values": nslots, "total_uncompressed_size": unc_total,
              "total_compressed_size": base_offset + len(out) - start, "data_page_offset": data_off}
        if dict_off is not None:
            md["dictionary_page_offset"] = dict_off
        if cs.get("write_stats"):
            # (for a LIST / MAP leaf only on request: writers of the parquet-mr lineage count every level entry below the maximum
            #  definition level as a null - an empty list as much as a missing row)
            st = {"null_count": sum(1 for r, d, v in slots if d != max_def)} if not ((max_rep and not cs.get("nested_null_count")) or cs.get("omit_null_count")) else {}
            key = _order_key(ptype, cs.get("converted"))
            vv = [v for v in values if not (isinstance(v, float) and v != v)]
            if key is not None and vv and cs.get("write_minmax", True):
                st["min_value"] = stat_bytes(ptype, min(vv, key=key), tlen)
                st["max_value"] = stat_bytes(ptype, max(vv, key=key), tlen)
                if cs.get("legacy_minmax"):
                    st["min"], st["max"] = st["min_value"], st["max_value"]
            md["statistics"] = st
        return {"file_offset": start, "meta_data": md}


def shred_list(row, top_optional, elem_optional):
    """LIST<elem>: optional? group (LIST) { repeated group list { optional? elem element } } -> [(rep, def, value)]"""
    d_top = 1 if top_optional else 0
    d_rep = d_top + 1
    d_el = d_rep + (1 if elem_optional else 0)
    if row is None:
        return [(0, 0, None)]
    if len(row) == 0:
        return [(0, d_top, None)]
    out = []
    for i, e in enumerate(row):
        rep = 0 if i == 0 else 1
        if e is None:
            out.append((rep, d_rep, None))
        else:
            out.append((rep, d_el, e))
    return out


def build_file(spec):
    """Returns (bytes, footer dict)."""
    idl = IDLMOD.load()
    codec = spec.get("codec", "UNCOMPRESSED")
    out = bytearray(b"PAR1")
    # schema
    schema = [{"name": b"schema", "num_children": len(spec["columns"])}]
    leaves = []
    for cs in spec["columns"]:
        nested = cs.get("nested")
        if not nested:
            se = {"name": cs["name"].encode("utf8"), "type": TYPES.index(cs["ptype"]), "repetition_type": 1 if cs.get("optional") else 0}
            if cs.get("type_length") is not None:
                se["type_length"] = cs["type_length"]
            if cs.get("scale") is not None:
                se["scale"] = cs["scale"]
                se["precision"] = cs["precision"]
            if cs.get("converted") is not None:
                se["converted_type"] = cs["converted"]
            if cs.get("logical") is not None:
                se["logicalType"] = cs["logical"]
            for k in ("scale", "precision"):
                if cs.get(k) is not None:
                    se[k] = cs[k]
            schema.append(se)
            leaf = dict(cs)
            leaf["path"] = [cs["name"].encode("utf8")]
            leaf["max_def"] = 1 if cs.get("optional") else 0
            leaf["max_rep"] = 0
            leaf["slots_of"] = (lambda rows, md=leaf["max_def"]: [(0, (md if v is not None else 0), v) for v in rows])
            leaves.append(leaf)
        elif nested["kind"] == "LIST":
            top_opt, el_opt = nested.get("top_optional", True), nested.get("elem_optional", True)
            schema.append({"name": cs["name"].encode("utf8"), "repetition_type": 1 if top_opt else 0, "num_children": 1, "converted_type": 3})
            # (the group names are not fixed by the format: older writers call them bag / array_element, arrow calls the element item)
            mid_, el_ = {"legacy": (b"bag", b"array_element"), "arrow": (b"list", b"item")}.get(nested.get("names"), (b"list", b"element"))
            schema.append({"name": mid_, "repetition_type": 2, "num_children": 1})
            se = {"name": el_, "type": TYPES.index(cs["ptype"]), "repetition_type": 1 if el_opt else 0}
            if cs.get("converted") is not None:
                se["converted_type"] = cs["converted"]
            schema.append(se)
            leaf = dict(cs)
            leaf["path"] = [cs["name"].encode("utf8"), mid_, el_]
            leaf["max_def"] = (1 if top_opt else 0) + 1 + (1 if el_opt else 0)
            leaf["max_rep"] = 1
            leaf["slots_of"] = (lambda rows, a=top_opt, b=el_opt: [s for row in rows for s in shred_list(row, a, b)])
            leaves.append(leaf)
        elif nested["kind"] == "MAP":
            top_opt, val_opt = nested.get("top_optional", True), nested.get("value_optional", True)
            schema.append({"name": cs["name"].encode("utf8"), "repetition_type": 1 if top_opt else 0, "num_children": 1, "converted_type": 1})
            mid_ = b"map" if nested.get("names") == "legacy" else b"key_value"        # (older writers: group "map", annotated MAP_KEY_VALUE)
            schema.append({"name": mid_, "repetition_type": 2, "num_children": 2, "converted_type": 2})
            kse = {"name": b"key", "type": TYPES.index(nested["key_ptype"]), "repetition_type": 0}
            if nested.get("key_converted") is not None:
                kse["converted_type"] = nested["key_converted"]
            vse = {"name": b"value", "type": TYPES.index(cs["ptype"]), "repetition_type": 1 if val_opt else 0}
            if cs.get("converted") is not None:
                vse["converted_type"] = cs["converted"]
            schema += [kse, vse]
            kl = dict(cs)
            kl.update({"ptype": nested["key_ptype"], "converted": nested.get("key_converted"), "path": [cs["name"].encode("utf8"), mid_, b"key"],
                       "max_def": (1 if top_opt else 0) + 1, "max_rep": 1})
            kl["slots_of"] = (lambda rows, a=top_opt: [s for row in rows for s in shred_list(None if row is None else [k for k, v in row], a, False)])
            vl = dict(cs)
            vl.update({"path": [cs["name"].encode("utf8"), mid_, b"value"], "max_def": (1 if top_opt else 0) + 1 + (1 if val_opt else 0), "max_rep": 1})
            vl["slots_of"] = (lambda rows, a=top_opt, b=val_opt: [s for row in rows for s in shred_list(None if row is None else [v for k, v in row], a, b)])
            if val_opt is False:
                pass
            leaves += [kl, vl]
        else:
            raise ValueError(nested["kind"])
    rgs = []
    row0 = 0
    for nrows in spec["row_groups"]:
        cols = []
        for leaf in leaves:
            rows = leaf["rows"][row0:row0 + nrows]
            slots = leaf["slots_of"](rows)
            cw = ColumnWriter(leaf, codec, idl)
            cols.append(cw.chunk(out, slots, 0))
        rg = {"columns": cols, "total_byte_size": sum(c["meta_data"]["total_uncompressed_size"] for c in cols), "num_rows": nrows}
        rgs.append(rg)
        row0 += nrows
    fmd = {"version": 1, "schema": schema, "num_rows": sum(spec["row_groups"]), "row_groups": rgs,
           "created_by": (spec.get("created_by", "refpq spec-level writer 1.0") or "").encode("utf8")}
    if "created_by" in spec and spec["created_by"] is None:
        del fmd["created_by"]          # the field is optional
    if spec.get("column_orders"):
        fmd["column_orders"] = [{"TYPE_ORDER": {}} for _ in leaves]
    if spec.get("kv"):
        fmd["key_value_metadata"] = [dict({"key": k if isinstance(k, bytes) else k.encode()}, **({} if v is None else {"value": v if isinstance(v, bytes) else v.encode()}))
                                     for k, v in spec["kv"]]      # (a value of None: a key without value, which the format allows)
    fb = CP.encode(fmd, "FileMetaData", idl)
    out += fb + struct.pack("<I", len(fb)) + b"PAR1"
    return bytes(out), fmd
