"""refpq: Parquet primitive encodings, written from the format documents (Encodings.md); no fastparquet imports.

All functions work on Python ints / bytes (clarity over speed); numpy is used only for bulk PLAIN conversion.
"""
import struct

import numpy as np


class DecodeError(Exception):
    pass


# ---------------------------------------------------------------------------------------------- varint / zigzag

def uvarint_encode(n):
    if n < 0:
        raise ValueError("uvarint of negative")
    out = bytearray()
    while n > 0x7F:
        out.append((n & 0x7F) | 0x80)
        n >>= 7
    out.append(n)
    return bytes(out)


def uvarint_decode(data, pos=0):
    """Returns (value, new_pos)."""
    result = 0
    shift = 0
    while True:
        if pos >= len(data):
            raise DecodeError("uvarint runs past end of buffer")
        b = data[pos]
        pos += 1
        result |= (b & 0x7F) << shift
        if not b & 0x80:
            return result, pos
        shift += 7
        if shift > 70:
            raise DecodeError("uvarint too long")


def zigzag_encode(n, bits=64):
    return ((n << 1) ^ (n >> (bits - 1))) & ((1 << bits) - 1)


def zigzag_decode(n):
    return (n >> 1) ^ -(n & 1)


# ---------------------------------------------------------------------------------------------- bit packing (LSB first)

def pack_bits(values, width):
    """Pack non-negative ints, `width` bits each, least-significant bit first.  Output length = ceil(len*width/8)."""
    if width == 0:
        return b""
    acc = 0
    nbits = 0
    out = bytearray()
    mask = (1 << width) - 1
    for v in values:
        if v < 0 or v > mask:
            raise ValueError("value %r does not fit %d bits" % (v, width))
        acc |= v << nbits
        nbits += width
        while nbits >= 8:
            out.append(acc & 0xFF)
            acc >>= 8
            nbits -= 8
    if nbits:
        out.append(acc & 0xFF)
    return bytes(out)


def unpack_bits(data, width, count, pos=0):
    """Unpack `count` values of `width` bits starting at byte `pos`."""
    if width == 0:
        return [0] * count
    need = (count * width + 7) // 8
    if pos + need > len(data):
        raise DecodeError("bit-packed data runs past end of buffer")
    acc = int.from_bytes(data[pos:pos + need], "little")
    mask = (1 << width) - 1
    return [(acc >> (i * width)) & mask for i in range(count)]


# ---------------------------------------------------------------------------------------------- RLE / bit-packed hybrid

def rle_run(value, count, width):
    """<header = count << 1> <value in ceil(width/8) bytes, little endian>"""
    return uvarint_encode(count << 1) + int(value).to_bytes((width + 7) // 8, "little")


def bp_run(values, width, pad_to_group=True):
    """<header = (groups << 1) | 1> <groups * width bytes>.  len(values) is rounded up to a multiple of 8 with zeros."""
    n = len(values)
    groups = (n + 7) // 8
    vals = list(values) + [0] * (groups * 8 - n)
    body = pack_bits(vals, width)
    if not pad_to_group:
        body = body[:(n * width + 7) // 8]
    return uvarint_encode((groups << 1) | 1) + body


def hybrid_encode(values, width, plan=None):
    """Encode with an explicit run plan: list of ("rle", n) / ("bp", n).  Default: one bit-packed run.
    A "bp" run that is not the last must have n % 8 == 0 (the format pads only the final group)."""
    values = list(values)
    if plan is None:
        plan = [("bp", len(values))] if values else []
    out = bytearray()
    i = 0
    for j, (kind, n) in enumerate(plan):
        chunk = values[i:i + n]
        if len(chunk) != n:
            raise ValueError("plan longer than values")
        if kind == "rle":
            if len(set(chunk)) > 1:
                raise ValueError("rle run over differing values")
            if n:
                out += rle_run(chunk[0], n, width)
        else:
            if n % 8 and j != len(plan) - 1:
                raise ValueError("only the last bit-packed run may be partial")
            out += bp_run(chunk, width)
        i += n
    if i != len(values):
        raise ValueError("plan shorter than values")
    return bytes(out)


def hybrid_decode(data, width, count, pos=0, end=None, strict=True):
    """Decode `count` values.  Returns (values, new_pos, runs) with runs = list of (kind, n_decoded, n_declared).
    end = exclusive byte limit of the stream (None = len(data))."""
    end = len(data) if end is None else end
    out = []
    runs = []
    vbytes = (width + 7) // 8
    while len(out) < count:
        if pos >= end:
            raise DecodeError("hybrid stream ends after %d of %d values" % (len(out), count))
        header, pos = uvarint_decode(data[:end], pos)
        if header & 1:
            groups = header >> 1
            n = groups * 8
            nbytes = groups * width
            avail = end - pos
            take = min(n, count - len(out))
            need_bytes = (take * width + 7) // 8
            if need_bytes > avail:
                raise DecodeError("bit-packed run needs %d bytes for %d values, %d available" % (need_bytes, take, avail))
            short = nbytes > avail
            out += unpack_bits(data, width, take, pos)
            runs.append(("bp", take, n, "short_final_group" if short else None))
            pos += min(nbytes, avail)
        else:
            n = header >> 1
            if pos + vbytes > end:
                raise DecodeError("rle value runs past end")
            v = int.from_bytes(data[pos:pos + vbytes], "little")
            pos += vbytes
            if strict and width < 64 and v >> width:
                raise DecodeError("rle value %d does not fit %d bits" % (v, width))
            take = min(n, count - len(out))
            out += [v] * take
            runs.append(("rle", take, n, None))
    return out, pos, runs


def width_for(maxval):
    return int(maxval).bit_length()


# ---------------------------------------------------------------------------------------------- PLAIN

PLAIN_NP = {"INT32": "<i4", "INT64": "<i8", "FLOAT": "<f4", "DOUBLE": "<f8"}


def plain_encode(ptype, values, type_length=None):
    if ptype in PLAIN_NP:
        return np.asarray(values, dtype=PLAIN_NP[ptype]).tobytes()
    if ptype == "BOOLEAN":
        return pack_bits([1 if v else 0 for v in values], 1)
    if ptype == "INT96":
        return b"".join(bytes(v) for v in values)
    if ptype == "BYTE_ARRAY":
        return b"".join(struct.pack("<I", len(v)) + bytes(v) for v in values)
    if ptype == "FIXED_LEN_BYTE_ARRAY":
        for v in values:
            if len(v) != type_length:
                raise ValueError("fixed length mismatch")
        return b"".join(bytes(v) for v in values)
    raise ValueError(ptype)


def plain_decode(ptype, data, count, pos=0, type_length=None):
    """Returns (values list, new_pos)."""
    if ptype in PLAIN_NP:
        dt = np.dtype(PLAIN_NP[ptype])
        need = dt.itemsize * count
        if pos + need > len(data):
            raise DecodeError("PLAIN %s: need %d bytes, have %d" % (ptype, need, len(data) - pos))
        arr = np.frombuffer(data, dtype=dt, count=count, offset=pos)
        return arr.tolist() if dt.kind != "f" else [x for x in arr], pos + need
    if ptype == "BOOLEAN":
        return [bool(v) for v in unpack_bits(data, 1, count, pos)], pos + (count + 7) // 8
    if ptype == "INT96":
        if pos + 12 * count > len(data):
            raise DecodeError("PLAIN INT96 short")
        return [bytes(data[pos + 12 * i: pos + 12 * i + 12]) for i in range(count)], pos + 12 * count
    if ptype == "BYTE_ARRAY":
        out = []
        for _ in range(count):
            if pos + 4 > len(data):
                raise DecodeError("PLAIN BYTE_ARRAY length prefix past end")
            (n,) = struct.unpack_from("<I", data, pos)
            pos += 4
            if pos + n > len(data):
                raise DecodeError("PLAIN BYTE_ARRAY value past end")
            out.append(bytes(data[pos:pos + n]))
            pos += n
        return out, pos
    if ptype == "FIXED_LEN_BYTE_ARRAY":
        if pos + type_length * count > len(data):
            raise DecodeError("PLAIN FLBA short")
        return [bytes(data[pos + type_length * i: pos + type_length * (i + 1)]) for i in range(count)], pos + type_length * count
    raise ValueError(ptype)


# ---------------------------------------------------------------------------------------------- DELTA_BINARY_PACKED

def delta_encode(values, block_size=128, miniblocks=4, bits=64):
    """<block size> <miniblocks per block> <total count> <first value (zigzag)> then blocks:
       <min delta (zigzag)> <bit widths of miniblocks> <miniblocks>.  Arithmetic wraps at `bits`."""
    values = [int(v) for v in values]
    mask = (1 << bits) - 1
    out = bytearray()
    out += uvarint_encode(block_size) + uvarint_encode(miniblocks) + uvarint_encode(len(values))
    first = values[0] if values else 0
    out += uvarint_encode(zigzag_encode(first, 64) if bits == 64 else zigzag_encode(first, 64))
    if len(values) <= 1:
        return bytes(out)
    per = block_size // miniblocks

    def wrap(x):
        x &= mask
        return x - (1 << bits) if x >> (bits - 1) else x

    deltas = [wrap(values[i] - values[i - 1]) for i in range(1, len(values))]
    for b in range(0, len(deltas), block_size):
        block = deltas[b:b + block_size]
        mind = min(block)
        out += uvarint_encode(zigzag_encode(mind, 64))
        rel = [(d - mind) & mask for d in block]
        widths = []
        bodies = []
        for m in range(miniblocks):
            mb = rel[m * per:(m + 1) * per]
            if not mb:
                widths.append(0)
                bodies.append(b"")
                continue
            w = max(v.bit_length() for v in mb)
            widths.append(w)
            mb = mb + [0] * (per - len(mb))
            bodies.append(pack_bits(mb, w))
        out += bytes(widths)
        for body in bodies:
            out += body
    return bytes(out)


def delta_decode(data, pos=0, bits=64):
    """Returns (values, new_pos, info)."""
    block_size, pos = uvarint_decode(data, pos)
    miniblocks, pos = uvarint_decode(data, pos)
    total, pos = uvarint_decode(data, pos)
    first, pos = uvarint_decode(data, pos)
    first = zigzag_decode(first)
    if miniblocks == 0 or block_size % 128 or (block_size // miniblocks) % 32:
        # the format requires multiples of 128 / 32; tolerated by most readers, reported in info
        pass
    mask = (1 << bits) - 1

    def wrap(x):
        x &= mask
        return x - (1 << bits) if x >> (bits - 1) else x

    out = [wrap(first)] if total else []
    widths_seen = []
    if total <= 1:
        return out, pos, {"block_size": block_size, "miniblocks": miniblocks, "widths": widths_seen}
    per = block_size // miniblocks
    while len(out) < total:
        mind, pos = uvarint_decode(data, pos)
        mind = zigzag_decode(mind)
        if pos + miniblocks > len(data):
            raise DecodeError("delta: width list past end")
        widths = list(data[pos:pos + miniblocks])
        pos += miniblocks
        for w in widths:
            if len(out) >= total:
                break
            if w > 64:
                raise DecodeError("delta: bit width %d" % w)
            widths_seen.append(w)
            vals = unpack_bits(data, w, per, pos)
            pos += per * w // 8
            for v in vals:
                if len(out) >= total:
                    break
                out.append(wrap(out[-1] + mind + v))
    return out, pos, {"block_size": block_size, "miniblocks": miniblocks, "widths": widths_seen}
