"""refpq: Thrift compact protocol codec (from the protocol specification) + typing against the Parquet IDL.

Untyped tree:  struct = list of (field_id, wire_type, value);  list value = (elem_type, [values]);  struct value = nested list.
Typed tree:    dict {field_name: python value}; nested structs are dicts; lists are lists; binaries/strings are bytes.
"""
import struct

from . import encodings as E
from . import idl as IDLMOD

T_STOP, T_TRUE, T_FALSE, T_BYTE, T_I16, T_I32, T_I64, T_DOUBLE, T_BINARY, T_LIST, T_SET, T_MAP, T_STRUCT = range(13)


class ThriftError(Exception):
    def __init__(self, code, msg):
        Exception.__init__(self, "%s: %s" % (code, msg))
        self.code = code


# ---------------------------------------------------------------------------------------------- untyped decode

def decode_struct(data, pos=0, depth=0):
    """Returns (fields, new_pos)."""
    if depth > 64:
        raise ThriftError("DEPTH", "nesting too deep")
    fields = []
    last = 0
    while True:
        if pos >= len(data):
            raise ThriftError("TRUNCATED", "struct runs past end of buffer")
        b = data[pos]
        pos += 1
        if b == 0:
            return fields, pos
        delta, t = b >> 4, b & 0x0F
        if delta == 0:
            z, pos = _uv(data, pos)
            fid = E.zigzag_decode(z)
        else:
            fid = last + delta
        last = fid
        val, pos = _decode_value(data, pos, t, depth)
        fields.append((fid, t, val))


def _uv(data, pos):
    try:
        return E.uvarint_decode(data, pos)
    except E.DecodeError as e:
        raise ThriftError("TRUNCATED", str(e))


def _decode_value(data, pos, t, depth, in_list=False):
    if t in (T_TRUE, T_FALSE):
        if in_list:
            if pos >= len(data):
                raise ThriftError("TRUNCATED", "bool element past end")
            return data[pos] == 1, pos + 1
        return t == T_TRUE, pos
    if t == T_BYTE:
        if pos >= len(data):
            raise ThriftError("TRUNCATED", "byte past end")
        v = data[pos]
        return (v - 256 if v > 127 else v), pos + 1
    if t in (T_I16, T_I32, T_I64):
        z, pos = _uv(data, pos)
        return E.zigzag_decode(z), pos
    if t == T_DOUBLE:
        if pos + 8 > len(data):
            raise ThriftError("TRUNCATED", "double past end")
        return struct.unpack_from("<d", data, pos)[0], pos + 8
    if t == T_BINARY:
        n, pos = _uv(data, pos)
        if pos + n > len(data):
            raise ThriftError("TRUNCATED", "binary of %d bytes runs past end of buffer" % n)
        return bytes(data[pos:pos + n]), pos + n
    if t in (T_LIST, T_SET):
        if pos >= len(data):
            raise ThriftError("TRUNCATED", "list header past end")
        h = data[pos]
        pos += 1
        n, et = h >> 4, h & 0x0F
        if n == 15:
            n, pos = _uv(data, pos)
        vals = []
        for _ in range(n):
            v, pos = _decode_value(data, pos, et, depth + 1, in_list=True)
            vals.append(v)
        return (et, vals), pos
    if t == T_STRUCT:
        return decode_struct(data, pos, depth + 1)
    raise ThriftError("WIRE_TYPE_UNKNOWN", "type nibble %d" % t)


# ---------------------------------------------------------------------------------------------- typing against the IDL

def typed(fields, sname, idl=None, path="", diags=None, strict_required=True):
    """Untyped field list -> {name: value}; appends diagnostics (code, path, detail) to diags."""
    idl = idl or IDLMOD.load()
    diags = diags if diags is not None else []
    out = {}
    seen = set()
    for fid, t, val in fields:
        f = idl.field(sname, fid)
        where = "%s%s.%s" % (path, sname, f["name"] if f else "#%d" % fid)
        if f is None:
            diags.append(("UNKNOWN_FIELD", where, "field id %d (wire type %d) is not in the IDL" % (fid, t)))
            continue
        if fid in seen:
            diags.append(("DUPLICATE_FIELD", where, ""))
        seen.add(fid)
        want = idl.wire(f["type"])
        if t not in want:
            diags.append(("WIRE_TYPE", where, "IDL type %s expects nibble %s, found %d" % (f["type"], want, t)))
        out[f["name"]] = _typed_value(val, t, f["type"], idl, where + ".", diags)
    if strict_required:
        for f in idl.structs[sname]:
            if f["req"] == "required" and f["id"] not in seen:
                diags.append(("MISSING_REQUIRED", "%s%s.%s" % (path, sname, f["name"]), ""))
    if sname in idl.unions and len(seen) != 1:
        diags.append(("UNION_ARITY", path + sname, "%d fields set" % len(seen)))
    return out


def _typed_value(val, t, ft, idl, path, diags):
    if isinstance(ft, tuple):
        if t not in (T_LIST, T_SET) or not isinstance(val, tuple):
            return val
        et, vals = val
        want = idl.elem_wire(ft[1])
        ok = (et in (T_TRUE, T_FALSE)) if ft[1] == "bool" else (et == want)
        if not ok and vals:
            diags.append(("WIRE_TYPE", path + "[]", "list<%s> expects element nibble %d, found %d" % (ft[1], want, et)))
        return [_typed_value(v, et, ft[1], idl, path + "[%d]." % i, diags) for i, v in enumerate(vals)]
    if ft in idl.structs:
        if t != T_STRUCT:
            return val
        return typed(val, ft, idl, path, diags)
    return val


def parse(data, sname, idl=None, pos=0, exact=True):
    """Decode + type.  Returns (value dict, new_pos, diagnostics)."""
    diags = []
    try:
        fields, end = decode_struct(data, pos)
    except ThriftError as e:
        return None, pos, [(e.code, sname, str(e))]
    val = typed(fields, sname, idl, "", diags)
    if exact and end != len(data):
        diags.append(("TRAILING_BYTES", sname, "%d bytes left after the struct" % (len(data) - end)))
    return val, end, diags


# ---------------------------------------------------------------------------------------------- encode (typed by the IDL)

def encode(value, sname, idl=None, long_form=False):
    """value: {field_name: python value} -> bytes.  long_form=True writes every field header in the long (zigzag id) form."""
    idl = idl or IDLMOD.load()
    out = bytearray()
    last = 0
    for f in sorted(idl.structs[sname], key=lambda f: f["id"]):
        if f["name"] not in value or value[f["name"]] is None:
            continue
        v = value[f["name"]]
        ft = f["type"]
        if ft == "bool":
            t = T_TRUE if v else T_FALSE
        else:
            t = idl.wire(ft)[0]
        delta = f["id"] - last
        if long_form or not (0 < delta <= 15):
            out.append(t)
            out += E.uvarint_encode(E.zigzag_encode(f["id"], 64))
        else:
            out.append((delta << 4) | t)
        last = f["id"]
        if ft != "bool":
            out += _encode_value(v, ft, idl, long_form)
    out.append(0)
    return bytes(out)


def _encode_value(v, ft, idl, long_form, in_list=False):
    if isinstance(ft, tuple):
        et = ft[1]
        en = idl.elem_wire(et)
        n = len(v)
        out = bytearray()
        if n <= 14:
            out.append((n << 4) | en)
        else:
            out.append(0xF0 | en)
            out += E.uvarint_encode(n)
        for x in v:
            out += _encode_value(x, et, idl, long_form, in_list=True)
        return bytes(out)
    if ft == "bool":
        return bytes([1 if v else 2])
    if ft in ("byte", "i8"):
        return bytes([v & 0xFF])
    if ft in ("i16", "i32", "i64") or ft in idl.enums:
        return E.uvarint_encode(E.zigzag_encode(int(v), 64))
    if ft == "double":
        return struct.pack("<d", v)
    if ft in ("binary", "string"):
        b = v.encode("utf8") if isinstance(v, str) else bytes(v)
        return E.uvarint_encode(len(b)) + b
    if ft in idl.structs:
        return encode(v, ft, idl, long_form)
    raise KeyError(ft)


def normalise(value):
    """Canonical form for comparing typed trees: str -> utf8 bytes, drop None."""
    if isinstance(value, dict):
        return {k: normalise(v) for k, v in value.items() if v is not None}
    if isinstance(value, (list, tuple)):
        return [normalise(v) for v in value]
    if isinstance(value, str):
        return value.encode("utf8")
    if isinstance(value, (bytes, bytearray, memoryview)):
        return bytes(value)
    if isinstance(value, bool):
        return bool(value)
    return value


def tree_diff(a, b, path=""):
    """First differences between two normalised typed trees."""
    out = []
    if isinstance(a, dict) and isinstance(b, dict):
        for k in sorted(set(a) | set(b)):
            if k not in a:
                out.append((path + "." + k, "<absent>", _short(b[k])))
            elif k not in b:
                out.append((path + "." + k, _short(a[k]), "<absent>"))
            else:
                out += tree_diff(a[k], b[k], path + "." + k)
        return out[:8]
    if isinstance(a, list) and isinstance(b, list):
        if len(a) != len(b):
            return [(path, "list of %d" % len(a), "list of %d" % len(b))]
        for i, (x, y) in enumerate(zip(a, b)):
            out += tree_diff(x, y, "%s[%d]" % (path, i))
            if len(out) >= 8:
                break
        return out
    if a != b or type(a) is not type(b) and not (isinstance(a, (int, bool)) and isinstance(b, (int, bool)) and a == b):
        return [(path, _short(a), _short(b))]
    return []


def _short(v):
    r = repr(v)
    return r if len(r) < 60 else r[:57] + "..."
