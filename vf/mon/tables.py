"""Canonical table comparison (DESIGN.md 5, "Table equality").

canon_series(s) -> (list of canonical scalars with None for missing, dtype-tag)
same_table(expected, got, ...) -> list of failure dicts (empty = same)
"""
import json
import math
import struct

import numpy as np
import pandas as pd


def _fbits(x, width):
    if width == 4:
        return ("f4", struct.unpack("<I", struct.pack("<f", float(x)))[0])
    return ("f8", struct.unpack("<Q", struct.pack("<d", float(x)))[0])


def canon_scalar(v):
    """Canonical value of an object cell (str/bytes/json/number)."""
    if v is None or v is pd.NA or v is pd.NaT:
        return None
    if isinstance(v, float):
        if math.isnan(v):
            return None
        return _fbits(v, 8)
    if isinstance(v, (np.floating,)):
        if np.isnan(v):
            return None
        return _fbits(v, v.dtype.itemsize if v.dtype.itemsize in (4, 8) else 8)
    if isinstance(v, (bool, np.bool_)):
        return ("b", bool(v))
    if isinstance(v, (int, np.integer)):
        return int(v)
    if isinstance(v, str):
        return ("s", v)
    if isinstance(v, (bytes, bytearray, memoryview)):
        return ("y", bytes(v))
    if isinstance(v, dict):
        # nested cells (MAP): keys may be of any scalar type
        return ("j", json.dumps([[repr(canon_scalar(k)), repr(canon_scalar(x))] for k, x in v.items()]))
    if isinstance(v, (list, tuple)):
        return ("j", json.dumps([repr(canon_scalar(x)) for x in v]))
    if isinstance(v, np.ndarray):
        return ("j", json.dumps([repr(canon_scalar(x)) for x in v.tolist()]))
    if isinstance(v, (pd.Timestamp, np.datetime64)):
        t = pd.Timestamp(v)
        if t is pd.NaT:
            return None
        return ("t", int(t.value))
    if isinstance(v, (pd.Timedelta, np.timedelta64)):
        t = pd.Timedelta(v)
        if t is pd.NaT:
            return None
        return ("d", int(t.value))
    return ("?", repr(v))


def canon_series(s):
    """Return (values, tag) where values is a list of canonical cells and tag describes the dtype class."""
    dt = s.dtype
    if isinstance(dt, pd.CategoricalDtype):
        labels, _ = canon_series(pd.Series(dt.categories))
        codes = np.asarray(s.cat.codes)
        vals = [None if c < 0 else (labels[c] if c < len(labels) else ("code-out-of-range", int(c))) for c in codes]
        return vals, ("category", tuple(labels), bool(dt.ordered))
    if isinstance(dt, pd.DatetimeTZDtype):
        unit = dt.unit
        iv = np.asarray(s.dt.tz_convert("UTC").dt.tz_localize(None).values.astype("M8[%s]" % unit).view("int64"))
        nat = np.iinfo("int64").min
        return [None if x == nat else ("t" + unit, int(x)) for x in iv], ("datetimetz", unit, str(dt.tz))
    kind = getattr(dt, "kind", None)
    if isinstance(dt, pd.api.extensions.ExtensionDtype) and not isinstance(dt, pd.StringDtype):
        # masked nullable
        mask = np.asarray(s.isna())
        data = s.to_numpy(dtype=object, na_value=None)
        out = []
        for v, m in zip(data, mask):
            out.append(None if m else canon_scalar(v))
        return out, ("masked", str(dt))
    if isinstance(dt, pd.StringDtype):
        data = s.to_numpy(dtype=object, na_value=None)
        return [canon_scalar(v) for v in data], ("text", "str")
    if kind == "M":
        unit = np.datetime_data(dt)[0]
        iv = s.values.view("int64")
        nat = np.iinfo("int64").min
        return [None if x == nat else ("t" + unit, int(x)) for x in iv], ("datetime", unit)
    if kind == "m":
        unit = np.datetime_data(dt)[0]
        iv = s.values.view("int64")
        nat = np.iinfo("int64").min
        mult = {"ns": 1, "us": 1000, "ms": 10 ** 6, "s": 10 ** 9}[unit]
        return [None if x == nat else ("d", int(x) * mult) for x in iv], ("timedelta", unit)
    if kind == "f":
        a = s.values
        w = a.dtype.itemsize
        if w == 4:
            bits = a.view("uint32")
        elif w == 8:
            bits = a.view("uint64")
        else:
            bits = a.astype("float64").view("uint64")
            w = 8
        nan = np.isnan(a)
        return [None if n else ("f%d" % w, int(b)) for b, n in zip(bits, nan)], ("float", w)
    if kind in "iu":
        return [int(x) for x in s.values], ("int", str(dt))
    if kind == "b":
        return [("b", bool(x)) for x in s.values], ("bool",)
    if kind == "O":
        return [canon_scalar(v) for v in s.values], ("object",)
    if kind in "SU":
        return [canon_scalar(v.item() if hasattr(v, "item") else v) for v in s.values], ("fixed", str(dt))
    return [("?", repr(v)) for v in s.values], ("other", str(dt))


def dtype_ok(exp_s, got_s, ctx=None):
    """Is got's dtype the original or the documented canonical form of exp's dtype?"""
    ctx = ctx or {}
    e, g = exp_s.dtype, got_s.dtype
    if e == g:
        return True
    if isinstance(e, pd.StringDtype) or e == object:
        # text -> object strings; bytes -> object; json -> object; pandas-3 default str accepted too
        return g == object or isinstance(g, pd.StringDtype)
    if isinstance(e, pd.CategoricalDtype):
        return isinstance(g, pd.CategoricalDtype)   # labels/order compared separately
    ek = getattr(e, "kind", None)
    if isinstance(e, pd.DatetimeTZDtype):
        if not isinstance(g, pd.DatetimeTZDtype):
            return False
        if ctx.get("times") == "int96":
            return g.unit == "ns" and _tzsame(e.tz, g.tz)
        return g.unit == e.unit and _tzsame(e.tz, g.tz)
    if ek == "M":
        if getattr(g, "kind", None) != "M" or isinstance(g, pd.DatetimeTZDtype):
            return False
        if ctx.get("times") == "int96":
            return np.datetime_data(g)[0] == "ns"
        return np.datetime_data(g)[0] == np.datetime_data(e)[0]
    if ek == "m":
        return getattr(g, "kind", None) == "m" and np.datetime_data(g)[0] in ("ns", "us")
    return False


def _tzsame(a, b):
    import datetime
    now = datetime.datetime(2020, 1, 15, 12, 0)
    now2 = datetime.datetime(2020, 7, 15, 12, 0)
    try:
        return (a.utcoffset(now) == b.utcoffset(now)) and (a.utcoffset(now2) == b.utcoffset(now2))
    except Exception:
        return str(a) == str(b)


def diff_cells(ev, gv, limit=8):
    bad = [i for i, (a, b) in enumerate(zip(ev, gv)) if a != b]
    return bad


def compare_series(name, exp_s, got_s, ctx=None, check_dtype=True, cat_strict=True):
    """Return list of failure dicts for one column."""
    fails = []
    ev, etag = canon_series(exp_s)
    gv, gtag = canon_series(got_s)
    if len(ev) != len(gv):
        return [{"kind": "row_count", "column": str(name), "expected": len(ev), "got": len(gv)}]
    # cross-unit datetime comparison: compare instants in ns when units differ legitimately (int96)
    if etag[0] in ("datetime", "datetimetz") and gtag[0] == etag[0] and etag[1] != gtag[1]:
        mult = {"ns": 1, "us": 1000, "ms": 10 ** 6, "s": 10 ** 9}
        ev = [None if v is None else ("t", v[1] * mult[etag[1]]) for v in ev]
        gv = [None if v is None else ("t", v[1] * mult[gtag[1]]) for v in gv]
    if cat_strict and (etag[0] == "category" or gtag[0] == "category"):
        if etag[0] == "category" and gtag[0] == "category":
            if etag[1] != gtag[1]:
                fails.append({"kind": "cat_labels", "column": str(name), "expected": list(etag[1])[:12],
                              "got": list(gtag[1])[:12], "n_expected": len(etag[1]), "n_got": len(gtag[1]), "n_rows": len(ev)})
            if etag[2] != gtag[2]:
                fails.append({"kind": "cat_ordered", "column": str(name), "expected": etag[2], "got": gtag[2]})
            if etag[1] == gtag[1]:
                ec = np.asarray(exp_s.cat.codes)
                gc = np.asarray(got_s.cat.codes)
                if not np.array_equal(ec, gc):
                    fails.append({"kind": "cat_codes", "column": str(name)})
    # float32 vs float64 canonical mismatch when dtype legitimately differs is not expected; compare raw
    bad = diff_cells(ev, gv)
    if bad:
        exp_missing = [i for i in bad if ev[i] is None]
        got_missing = [i for i in bad if gv[i] is None]
        fails.append({"kind": "cells", "column": str(name), "n_bad": len(bad), "first_bad": bad[:6],
                      "expected": [ev[i] for i in bad[:4]], "got": [gv[i] for i in bad[:4]],
                      "bad_all_expected_missing": len(exp_missing) == len(bad),
                      "bad_all_got_missing": len(got_missing) == len(bad),
                      "exp_dtype": str(exp_s.dtype), "got_dtype": str(got_s.dtype)})
    if check_dtype and not dtype_ok(exp_s, got_s, ctx):
        fails.append({"kind": "dtype", "column": str(name), "expected": str(exp_s.dtype), "got": str(got_s.dtype)})
    return fails


def same_table(exp, got, ctx=None, check_index=True, check_dtype=True, cat_strict=True):
    """Compare DataFrames.  exp is the canonicalised input (index already decided by caller)."""
    fails = []
    en = [str(c) for c in exp.columns]
    gn = [str(c) for c in got.columns]
    if en != gn:
        return [{"kind": "columns", "expected": en, "got": gn}]
    if len(exp) != len(got):
        return [{"kind": "row_count", "column": None, "expected": len(exp), "got": len(got)}]
    for i, c in enumerate(exp.columns):
        fails += compare_series(c, exp.iloc[:, i], got.iloc[:, i], ctx, check_dtype, cat_strict)
    if check_index:
        fails += compare_index(exp.index, got.index, ctx, cat_strict=cat_strict)
    return fails


def _unnamed(names):
    """pandas' own spelling of an unnamed stored index level (__index_level_N__) is the same as no name"""
    import re
    return [None if (isinstance(n, str) and re.fullmatch(r"__index_level_\d+__", n)) else n for n in names]


def compare_index(ei, gi, ctx=None, cat_strict=True):
    fails = []
    if isinstance(ei, pd.RangeIndex):
        gnames = [None] if (list(ei.names) == [None] and list(gi.names) == ["index"]) else list(gi.names)
        if _unnamed(gnames) != _unnamed(list(ei.names)):
            fails.append({"kind": "index_names", "expected": [str(n) for n in ei.names], "got": [str(n) for n in gi.names]})
        # automatic range index: regenerated; values must be the same range
        if len(ei) == len(gi) and len(ei) and not (np.asarray(gi) == np.asarray(ei)).all():
            fails.append({"kind": "index_range", "expected": [int(ei[0]), int(ei[-1])], "got": repr(gi[:3])})
        return fails
    if ei.nlevels != gi.nlevels:
        return [{"kind": "index_levels", "expected": ei.nlevels, "got": gi.nlevels}]
    en = [n for n in ei.names]
    gn = [n for n in gi.names]
    en, gn = _unnamed(en), _unnamed(gn)
    if ei.nlevels == 1 and en == [None] and gn == ["index"]:
        gn = [None]   # documented canonical form: an unnamed written index is stored as column "index"
    if en != gn:
        fails.append({"kind": "index_names", "expected": [str(n) for n in ei.names], "got": [str(n) for n in gi.names]})
    for lv in range(ei.nlevels):
        es = pd.Series(ei.get_level_values(lv)).reset_index(drop=True)
        try:
            gs = pd.Series(gi.get_level_values(lv)).reset_index(drop=True)
        except Exception as e:
            # the index object that came back cannot even be walked (codes pointing outside their level)
            fails.append({"kind": "index_levels", "expected": ei.nlevels, "got": "level %d cannot be materialised: %s" % (lv, type(e).__name__)})
            continue
        sub = compare_series("<index:%s>" % (ei.names[lv],), es, gs, ctx,
                             check_dtype=False, cat_strict=cat_strict)
        for f in sub:
            f["index"] = True
        fails += sub
    return fails
