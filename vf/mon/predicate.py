"""Independent predicate evaluator for fastparquet filter programs (DESIGN.md 5/C05, C13).

A program is OR of AND-groups; a flat list of conditions means AND.  Cells are plain Python values (None = missing-like:
NULL, NaN, NaT).  Three-valued result per row:
   MUST     - some AND-group has all conditions true on non-missing cells
   REJECT   - every AND-group has a condition that is false on a non-missing cell, or that involves a missing cell under a
              positive operator (==,<,<=,>,>=,in) - a missing cell satisfies no positive condition
   DONTCARE - the outcome hinges on a missing cell under a negative operator (!=, not in)
"""
import datetime
import math

import numpy as np
import pandas as pd

MUST, REJECT, DONTCARE = 1, 0, 2
POS_OPS = ("==", "=", "<", "<=", ">", ">=", "in")
NEG_OPS = ("!=", "not in")


class Unorderable(Exception):
    pass


def norm(v):
    """Normalise a cell or filter constant to a comparable Python value (None = missing-like)."""
    if v is None or v is pd.NaT or v is pd.NA:
        return None
    if isinstance(v, (bool, np.bool_)):
        return bool(v)
    if isinstance(v, (int, np.integer)):
        return int(v)
    if isinstance(v, (float, np.floating)):
        f = float(v)
        return None if math.isnan(f) else f
    if isinstance(v, str):
        return v
    if isinstance(v, (bytes, bytearray)):
        return bytes(v)
    if isinstance(v, (pd.Timestamp, np.datetime64, datetime.datetime, datetime.date)):
        t = pd.Timestamp(v)
        if t is pd.NaT:
            return None
        if t.tzinfo is not None:
            # aware and naive instants are different families: comparing them is ill-defined and not judged
            return ("tsz", int(t.tz_convert("UTC").tz_localize(None).as_unit("ns").value))
        return ("ts", int(t.as_unit("ns").value))
    if isinstance(v, (pd.Timedelta, np.timedelta64, datetime.timedelta)):
        t = pd.Timedelta(v)
        if t is pd.NaT:
            return None
        return ("td", int(t.as_unit("ns").value))
    raise Unorderable(type(v).__name__)


def _family(x):
    if isinstance(x, bool):
        return "num"
    if isinstance(x, (int, float)):
        return "num"
    if isinstance(x, str):
        return "str"
    if isinstance(x, bytes):
        return "bytes"
    if isinstance(x, tuple):
        return x[0]
    return "?"


def cmp(op, cell, const):
    """Truth of `cell op const` on normalised non-missing values."""
    if _family(cell) != _family(const):
        # the library may legitimately parse a constant into the column's type (ISO text vs timestamp, "5" vs 5 for a
        # partition column): comparisons across families are not judged
        raise Unorderable("%s vs %s" % (_family(cell), _family(const)))
    if isinstance(cell, tuple):
        cell, const = cell[1], const[1]
    if op in ("==", "="):
        return cell == const
    if op == "!=":
        return cell != const
    if op == "<":
        return cell < const
    if op == "<=":
        return cell <= const
    if op == ">":
        return cell > const
    if op == ">=":
        return cell >= const
    raise ValueError(op)


def cond3(cell, op, const):
    """Three-valued truth of one condition on one (normalised) cell; const is normalised (list for in/not in)."""
    if op in ("in", "not in"):
        if cell is None:
            # (a missing value listed explicitly: whether it "equals" a missing cell is a matter of convention - pandas' isin says yes)
            return REJECT if (op == "in" and not any(c is None for c in const)) else DONTCARE
        if any((c is not None) and _family(c) != _family(cell) for c in const):
            raise Unorderable("mixed families in list")
        hit = any((c is not None) and cmp("==", cell, c) for c in const)
        if op == "in":
            return MUST if hit else REJECT
        return REJECT if hit else MUST
    if const is None:
        # comparing with a missing constant: nothing is asserted either way
        return DONTCARE
    if cell is None:
        return REJECT if op in POS_OPS else DONTCARE
    return MUST if cmp(op, cell, const) else REJECT


def normalise_program(filters):
    """fastparquet convention: flat list of tuples = one AND-group; list of lists = OR of AND-groups."""
    if not filters:
        return [[]]
    if isinstance(filters[0][0], str):
        return [list(filters)]
    return [list(g) for g in filters]


def norm_const(op, val):
    if op in ("in", "not in"):
        return [norm(v) for v in val]
    return norm(val)


def eval_rows(program, columns, n):
    """program: OR-of-ANDs with raw constants; columns: {name: list of normalised cells}.  Returns list of MUST/REJECT/DONTCARE."""
    groups = [[(c, op, norm_const(op, v)) for (c, op, v) in g] for g in normalise_program(program)]
    out = []
    for i in range(n):
        best = REJECT
        for g in groups:
            state = MUST
            for (c, op, v) in g:
                r = cond3(columns[c][i], op, v)
                if r == REJECT:
                    state = REJECT
                    break
                if r == DONTCARE:
                    state = DONTCARE
            if state == MUST:
                best = MUST
                break
            if state == DONTCARE:
                best = DONTCARE
        out.append(best)
    return out


def group_has_qualifying(group, columns, rows):
    """Does any row in `rows` satisfy the AND-group under the weakest reading (missing satisfies nothing)?"""
    g = [(c, op, norm_const(op, v)) for (c, op, v) in group]
    for i in rows:
        ok = True
        for (c, op, v) in g:
            if cond3(columns[c][i], op, v) != MUST:
                ok = False
                break
        if ok:
            return i
    return None


def frame_columns(df):
    """Normalised cell lists for every column of a DataFrame (categoricals by label)."""
    cols = {}
    for c in df.columns:
        s = df[c]
        if isinstance(s.dtype, pd.CategoricalDtype):
            vals = s.astype(object).tolist()
        elif isinstance(s.dtype, pd.DatetimeTZDtype):
            vals = list(s)
        else:
            vals = s.astype(object).tolist() if s.dtype.kind not in "Mm" else list(s)
        cols[str(c)] = [norm(v) for v in vals]
    return cols


def adapt_program(program, f32cols, ordered_cats=()):
    """Constants compared with a float32 column are compared at float32 precision (numpy/pandas weak-scalar semantics)."""
    if not f32cols and not ordered_cats:
        return program

    def a(c, op, v):
        if c in ordered_cats and op in ("<", "<=", ">", ">="):
            # pandas compares an ordered categorical in category order, the file statistics in value order: not judged
            raise Unorderable("ordering operator on an ordered categorical")
        if c not in f32cols:
            return (c, op, v)
        def r(x):
            if isinstance(x, (float, np.floating)) and not isinstance(x, np.float32):
                if float(np.float32(x)) != float(x) and not math.isnan(float(x)):
                    # == compares at float32 precision but isin() at float64: not judged
                    raise Unorderable("constant not representable in float32")
            return x
        return (c, op, [r(x) for x in v] if isinstance(v, list) else r(v))
    if program and isinstance(program[0][0], str):
        return [a(*t) for t in program]
    return [[a(*t) for t in g] for g in program]


_UNIT_NS = {"s": 10 ** 9, "ms": 10 ** 6, "us": 10 ** 3, "ns": 1}


def judgeable(program, frame):
    """Raise Unorderable for constants whose comparison with the column is decided by lossy pandas/numpy casts rather than by
    values: timestamps finer than the column's unit (isin() truncates them), integers outside the column's integer range and
    floats beyond 2**53 against integer columns (compared through float64)."""
    for g in normalise_program(program):
        for c, op, v in g:
            if c not in frame:
                continue
            dt = frame[c].dtype
            if isinstance(dt, pd.CategoricalDtype):
                dt = dt.categories.dtype      # a partition column: conditions are evaluated on its values
            vals = v if isinstance(v, list) else [v]
            unit = None
            if isinstance(dt, pd.DatetimeTZDtype):
                unit = dt.unit
            elif getattr(dt, "kind", None) in "Mm":
                unit = np.datetime_data(dt)[0]
            kind0 = getattr(dt, "kind", None) or ("i" if str(dt)[:3] in ("Int", "UIn") else None)
            if isinstance(v, list) and kind0 in ("i", "u"):
                # isin() with a list that mixes floats and integers compares through float64: exact only below 2**53
                has_float = any(isinstance(x, (float, np.floating)) for x in v)
                big = any(isinstance(x, (int, np.integer)) and not isinstance(x, (bool, np.bool_)) and abs(int(x)) >= 2 ** 53 for x in v)
                if has_float and (big or (len(frame) and int(np.abs(pd.Series(frame[c].dropna().astype(object).tolist(), dtype="float64")).max() if len(frame[c].dropna()) else 0) >= 2 ** 53)):
                    raise Unorderable("list mixing floats and integers against 64-bit integers beyond 2**53 (compared through float64)")
            for x in vals:
                # (only for the list operators: a scalar comparison of a coarse time column with a finer constant is exact in pandas)
                if unit and unit != "ns" and isinstance(v, list) and isinstance(x, (pd.Timestamp, np.datetime64, datetime.datetime, pd.Timedelta, np.timedelta64)):
                    n = norm(x)
                    if n is not None and n[1] % _UNIT_NS[unit]:
                        raise Unorderable("constant finer than the column's %s resolution" % unit)
                kind = getattr(dt, "kind", None) or ("i" if str(dt)[:3] in ("Int", "UIn") else None)
                if str(dt)[:3] in ("Int", "UIn"):
                    info = np.iinfo(str(dt).lower())
                elif kind in "iu":
                    info = np.iinfo(dt)
                else:
                    info = None
                if info is not None:
                    if isinstance(x, (int, np.integer)) and not isinstance(x, (bool, np.bool_)) and not (info.min <= int(x) <= info.max):
                        raise Unorderable("integer constant outside the column's range")
                    if isinstance(x, (float, np.floating)) and abs(float(x)) >= 2.0 ** 53:
                        raise Unorderable("float constant beyond 2**53 against an integer column")
