"""Filesystem monitors: audit-hook event log, directory snapshots, fault-injecting open_with/mkdirs seams (DESIGN.md 0.4, 0.5)."""
import hashlib
import os
import sys

_LOG = []
_ON = [False]
_INSTALLED = [False]
_ROOTS = [()]


def _hook(event, args):
    if not _ON[0]:
        return
    try:
        if event == "open":
            path, mode, flags = args
            if isinstance(path, (str, bytes)):
                p = os.fsdecode(path)
                if p.startswith(_ROOTS[0]):
                    _LOG.append(("open", p, mode if isinstance(mode, str) else "flags:%s" % flags))
        elif event in ("os.rename", "os.replace"):
            src, dst = os.fsdecode(args[0]), os.fsdecode(args[1])
            if src.startswith(_ROOTS[0]) or dst.startswith(_ROOTS[0]):
                # the hook runs before the operation: record whether source / destination exist at that moment
                _LOG.append(("rename", src, dst, os.path.exists(src), os.path.exists(dst)))
        elif event in ("os.remove", "os.unlink"):
            p = os.fsdecode(args[0])
            if p.startswith(_ROOTS[0]):
                _LOG.append(("remove", p))
        elif event == "os.rmdir":
            p = os.fsdecode(args[0])
            if p.startswith(_ROOTS[0]):
                _LOG.append(("rmdir", p))
        elif event == "os.mkdir":
            p = os.fsdecode(args[0])
            if p.startswith(_ROOTS[0]):
                _LOG.append(("mkdir", p))
        elif event == "os.truncate":
            p = args[0]
            if isinstance(p, (str, bytes)) and os.fsdecode(p).startswith(_ROOTS[0]):
                _LOG.append(("truncate", os.fsdecode(p), args[1]))
        elif event == "shutil.rmtree":
            p = os.fsdecode(args[0])
            if p.startswith(_ROOTS[0]):
                _LOG.append(("rmtree", p))
    except Exception:
        pass


class Audit:
    """with Audit(root) as log: ...   -> log.events is the list of fs events under root, in order."""

    def __init__(self, *roots):
        self.roots = tuple(os.path.abspath(r) for r in roots)
        self.events = []

    def __enter__(self):
        if not _INSTALLED[0]:
            sys.addaudithook(_hook)
            _INSTALLED[0] = True
        del _LOG[:]
        _ROOTS[0] = self.roots
        _ON[0] = True
        return self

    def __exit__(self, *a):
        _ON[0] = False
        self.events = list(_LOG)
        del _LOG[:]
        return False

    def mark(self):
        return len(_LOG)

    def since(self, mark):
        return list(_LOG[mark:])


WRITE_MODES = ("w", "a", "+", "x")


def is_write_mode(mode):
    return isinstance(mode, str) and any(ch in mode for ch in WRITE_MODES)


def snapshot(root):
    """{relative path: (size, sha256, inode)} for every regular file under root."""
    out = {}
    root = os.path.abspath(root)
    if os.path.isfile(root):
        st = os.stat(root)
        with open(root, "rb") as f:
            out[""] = (st.st_size, hashlib.sha256(f.read()).hexdigest(), st.st_ino)
        return out
    for d, dirs, files in os.walk(root):
        for fn in files:
            p = os.path.join(d, fn)
            st = os.stat(p)
            with open(p, "rb") as f:
                h = hashlib.sha256(f.read()).hexdigest()
            out[os.path.relpath(p, root).replace(os.sep, "/")] = (st.st_size, h, st.st_ino)
    return out


def is_meta(rel):
    b = rel.rsplit("/", 1)[-1]
    return b in ("_metadata", "_common_metadata")


class InjectedFault(OSError):
    pass


class Killed(BaseException):
    pass


class FaultSeam:
    """open_with / mkdirs wrappers that count filesystem calls and fail (or kill) at the k-th one.

    Counted calls: open-for-write, write, close (via __exit__/close of a file opened for writing), mkdirs.
    """

    def __init__(self, fail_at=None, mode="raise"):
        self.n = 0
        self.fail_at = fail_at
        self.mode = mode
        self.calls = []      # (index, kind, path)
        self.fired = None

    def _tick(self, kind, path):
        self.n += 1
        self.calls.append((self.n, kind, path))
        if self.fail_at is not None and self.n == self.fail_at and self.fired is None:
            self.fired = (self.n, kind, path)
            if self.mode == "kill":
                os._exit(97)
            raise InjectedFault("injected fault at call %d (%s %s)" % (self.n, kind, path))

    def open_with(self, path, mode="rb"):
        if is_write_mode(mode):
            self._tick("open_w", path)
            return _FileProxy(open(path, mode), self, path)
        return open(path, mode)

    def mkdirs(self, path):
        self._tick("mkdirs", path)
        os.makedirs(path, exist_ok=True)


class _FileProxy:
    def __init__(self, f, seam, path):
        self._f = f
        self._seam = seam
        self._path = path
        self._closed = False

    def write(self, data):
        self._seam._tick("write", self._path)
        return self._f.write(data)

    def close(self):
        if not self._closed:
            self._closed = True
            try:
                self._seam._tick("close", self._path)
            finally:
                self._f.close()

    def __enter__(self):
        return self

    def __exit__(self, *a):
        self.close()
        return False

    def __getattr__(self, name):
        return getattr(self._f, name)
