"""Record-don't-raise contracts attached from the harness (DESIGN.md 1.4)."""
import functools
import sys

import numpy as np


class Contract:
    def __init__(self, name):
        self.name = name
        self.checked = 0
        self.violations = []
        self.calls = 0

    def stats(self):
        return {"checked": self.checked, "calls": self.calls, "violations": len(self.violations)}

    def drain(self):
        v, self.violations = self.violations, []
        return v


def attach(module, name, post=None, pre=None, contract=None):
    """Wrap module.name; rebind every alias in fastparquet* modules.  post(contract, args, kwargs, result, pre_state)."""
    orig = getattr(module, name)
    c = contract or Contract(module.__name__ + "." + name)

    @functools.wraps(orig)
    def wrapper(*a, **k):
        c.calls += 1
        st = None
        if pre is not None:
            try:
                st = pre(c, a, k)
            except Exception as e:  # monitor bug must not change behaviour
                c.violations.append({"kind": "monitor_error", "contract": c.name, "msg": repr(e)[:200]})
        out = orig(*a, **k)
        if post is not None:
            try:
                post(c, a, k, out, st)
            except Exception as e:
                c.violations.append({"kind": "monitor_error", "contract": c.name, "msg": repr(e)[:200]})
        return out

    wrapper.__vf_orig__ = orig
    n = 0
    for mname, m in list(sys.modules.items()):
        if m is None or not mname.startswith("fastparquet"):
            continue
        for attr, val in list(vars(m).items()):
            if val is orig:
                setattr(m, attr, wrapper)
                n += 1
    c.rebound = n
    return c


def _backing(df, col):
    import pandas as pd
    arr = df[col].array
    if isinstance(arr, pd.Categorical):
        return arr._codes
    if hasattr(arr, "_ndarray"):
        a = arr._ndarray
        return a
    if hasattr(arr, "_data") and hasattr(arr, "_mask"):
        return arr._data
    return np.asarray(df[col].values)


def _index_backing(index, level=None):
    import pandas as pd
    if isinstance(index, pd.MultiIndex):
        return np.asarray(index.codes[level])
    if isinstance(index, pd.CategoricalIndex):
        return index._data._codes
    if hasattr(index, "_data") and hasattr(index._data, "_ndarray"):
        return index._data._ndarray
    return index._data if isinstance(index._data, np.ndarray) else np.asarray(index.values)


def attach_empty_alias_contract():
    """dataframe.empty(): every returned view must alias the frame it was returned with."""
    import fastparquet.dataframe as D
    import pandas as pd

    def post(c, a, k, out, st):
        df, views = out
        size = a[1] if len(a) > 1 else k.get("size")
        if not size:
            return
        index_names = k.get("index_names") or []
        if isinstance(index_names, str):
            index_names = [index_names]
        for name, v in views.items():
            if str(name).endswith("-catdef"):
                continue
            if hasattr(v, "_data") and hasattr(v, "_mask"):
                varr = v._data
            else:
                varr = v
            if not isinstance(varr, np.ndarray):
                continue
            if name in index_names and name not in df.columns:
                if isinstance(df.index, pd.MultiIndex):
                    lvl = list(index_names).index(name)
                    back = _index_backing(df.index, lvl)
                else:
                    back = _index_backing(df.index)
                where = "index"
            elif name in df.columns:
                back = _backing(df, name)
                where = "column"
            else:
                continue
            c.checked += 1
            if len(varr) != size or not np.shares_memory(varr, back):
                c.violations.append({"kind": "view_not_aliased", "where": where, "column": str(name),
                                     "view_dtype": str(varr.dtype), "frame_dtype": str(getattr(back, "dtype", None)),
                                     "view_len": int(len(varr)), "size": int(size)})

    return attach(D, "empty", post=post)
