"""C18 - rejected operations raise and leave an existing dataset exactly as it was (DESIGN.md 5/C18)."""
import itertools
import os

import numpy as np

ID = "C18"
LEVEL = "exploration"
FLAVOUR = "plain"
TECHNIQUE = "runtime monitor: exception-class check + snapshot oracle (table read before == table read after, every file still parseable) + audit log of files opened for writing before the rejection"
RULE = ("full grid: rejection kind {unsupported dtype, non-text / duplicate column names, None in a non-nullable column, object_encoding "
        "that cannot encode, append with different columns / dtype / file scheme / partitioning, unknown column in columns= / filters=, "
        "unknown codec, bad times=} x offending column first/middle/last x offending value in first or later row group x existing "
        "dataset {single file, hive, hive partitioned} x 1..4 row groups, plus seeded random frames; non-trivial = the operation "
        "raised and the pre-existing dataset was re-read and compared; distinct = distinct (kind, position, row-group position, state, "
        "n row groups, mode) tuples")
ASSUMPTIONS = ["an operation that the library accepts instead of refusing is counted (accepted) and only required to keep the old rows intact",
               "content equality is judged on the table read back, not on file bytes (an aborted multi-file append may leave orphan part files)"]
CASE_TIMEOUT = 120

KINDS = ["complex_dtype", "nontext_name", "duplicate_name", "none_in_required", "bad_object_encoding", "append_diff_columns",
         "append_diff_dtype", "append_diff_scheme", "append_diff_partitioning", "append_unencodable_value", "unknown_column_read",
         "unknown_column_filter", "unknown_codec", "bad_times", "append_extra_column", "append_missing_column", "na_in_required_int", "extension_object_dtype", "unknown_column_categories"]
STATES = ["simple", "hive", "hive_part"]


def gen_cases(tier, seed):
    cases = []
    k = 0
    for kind, pos, rgpos, state, nrg in itertools.product(KINDS, ["first", "middle", "last"], ["first", "later"], STATES, [1, 3]):
        k += 1
        for mode in (["append"] if kind.startswith(("append_", "unknown_column")) else ["append", "rewrite"]):
            if tier == "quick" and (k + len(mode)) % 2 and kind not in ("append_unencodable_value", "none_in_required", "na_in_required_int"):
                continue
            cases.append({"id": "G/%s/%s/%s/%s/%d/%s" % (kind, pos, rgpos, state, nrg, mode), "kind": kind, "pos": pos, "rgpos": rgpos,
                          "state": state, "nrg": nrg, "mode": mode, "seed": 1800 + k})
    # rejections that happen late (during conversion / encoding of the offending column or row group), with frames large enough that
    # the aborted operation has already written more bytes than the old footer is long
    for kind, pos, rgpos, state in itertools.product(["append_unencodable_value", "none_in_required", "bad_object_encoding", "complex_dtype", "bad_times", "na_in_required_int"],
                                                     ["first", "middle", "last"], ["first", "later"], STATES):
        k += 1
        for rows in ([3000] if tier == "quick" else [400, 3000, 20000]):
            cases.append({"id": "B/%s/%s/%s/%s/%d" % (kind, pos, rgpos, state, rows), "kind": kind, "pos": pos, "rgpos": rgpos, "state": state,
                          "nrg": 2, "mode": "append", "seed": 1900 + k, "rows": rows, "new_rows": rows})
    # a handle that is kept after one of its appends was refused: what it appends later must not carry rows of the refused frame
    for kind, pos, state, rows in itertools.product(["append_unencodable_value", "na_in_required_int"], ["first", "last"], ["hive", "hive_part", "simple"],
                                                    [12, 400] if tier == "quick" else [12, 400, 5000]):
        k += 1
        cases.append({"id": "H/%s/%s/%s/%d" % (kind, pos, state, rows), "kind": kind, "pos": pos, "rgpos": "later", "state": state, "nrg": 2, "mode": "append",
                      "seed": 2100 + k, "rows": 12, "new_rows": rows, "reuse_handle": True})
    # remove_row_groups given a row group the dataset does not have (next to ones it has): refused; the handle is then used again
    for state, nrg in itertools.product(["hive", "hive_part"], [3, 4]):
        k += 1
        cases.append({"id": "RM/%s/%d" % (state, nrg), "kind": "remove_with_unknown_row_group", "pos": "middle", "rgpos": "later", "state": state, "nrg": nrg, "mode": "append",
                      "seed": 2800 + k, "rows": 24, "new_rows": 6, "reuse_handle": True})
    # python integers in an object column declared INT32 (object_encoding='int32'): a value outside int32 cannot be encoded as declared
    for state, mode, val in itertools.product(STATES, ["append", "rewrite"], [2 ** 31, -2 ** 31 - 1, 2 ** 40 + 7]):
        k += 1
        cases.append({"id": "I32/%s/%s/%d" % (state, mode, val), "kind": "int32_object_overflow", "pos": "last", "rgpos": "later", "state": state, "nrg": 2, "mode": mode,
                      "seed": 2700 + k, "rows": 12, "big_value": val})
    # the append is given as an ITERABLE of frames (documented for ParquetFile.write_row_groups): the source breaks down after k frames, or a
    # later frame lacks a column - whatever the exception, it is a refused operation
    for kind, state, after in itertools.product(["append_iterable_source_fails", "append_iterable_frame_lacks_column", "append_iterable_frame_has_extra_column"], STATES, [0, 1, 2]):
        k += 1
        cases.append({"id": "IT/%s/%s/%d" % (kind, state, after), "kind": kind, "pos": "middle", "rgpos": "later", "state": state, "nrg": 2, "mode": "append",
                      "seed": 2500 + k, "rows": 20, "frames_before_failure": after, "reuse_handle": True})
    # the existing dataset has a history: row groups were removed from it earlier, so the part numbers in use have gaps
    for kind, pos, state, gap in itertools.product(["append_unencodable_value", "none_in_required", "na_in_required_int", "unknown_codec", "append_diff_columns"],
                                                   ["first", "last"], ["hive", "hive_part"], [[1], [0, 2], [0]]):
        k += 1
        if kind not in KINDS:
            continue
        if tier == "quick" and k % 2 and kind != "append_unencodable_value":
            continue
        cases.append({"id": "GP/%s/%s/%s/%s" % (kind, pos, state, "".join(map(str, gap))), "kind": kind, "pos": pos, "rgpos": ["first", "later"][k % 2], "state": state,
                      "nrg": 5, "mode": "append", "seed": 2300 + k, "rows": 20, "removed_before": gap})
    # write_row_groups(..., sort_key=f) where f raises for the new row groups (say, a key on statistics they do not carry): a refused
    # operation; the handle is then used again
    for state, rows in itertools.product(["hive", "hive_part"], [6, 40]):
        k += 1
        cases.append({"id": "SK/%s/%d" % (state, rows), "kind": "append_sort_key_raises", "pos": "middle", "rgpos": "later", "state": state, "nrg": 2, "mode": "append",
                      "seed": 3100 + k, "rows": 16, "new_rows": rows, "reuse_handle": True})
    # the existing dataset is a bare directory of part files (its _metadata / _common_metadata are gone, as in datasets other tools wrote or
    # pruned): what the directory holds IS the dataset, so whatever a refused append leaves in it is a change of the dataset
    for kind, pos, rgpos, state in itertools.product(["append_unencodable_value", "none_in_required", "append_diff_columns", "unknown_codec"], ["first", "last"], ["first", "later"], ["hive", "hive_part"]):
        k += 1
        if kind not in KINDS:
            continue
        cases.append({"id": "NM/%s/%s/%s/%s" % (kind, pos, rgpos, state), "kind": kind, "pos": pos, "rgpos": rgpos, "state": state, "nrg": 3, "mode": "append",
                      "seed": 2900 + k, "rows": 18, "no_summary": True})
    rng = np.random.default_rng([seed, 1818])
    for i in range(150 if tier == "quick" else 3000):
        cases.append({"id": "R/%d/%d" % (seed, i), "kind": KINDS[int(rng.integers(0, len(KINDS)))],
                      "pos": ["first", "middle", "last"][int(rng.integers(0, 3))], "rgpos": ["first", "later"][int(rng.integers(0, 2))],
                      "state": STATES[int(rng.integers(0, 3))], "nrg": int(rng.integers(1, 5)),
                      "mode": "append", "seed": int(rng.integers(0, 2 ** 31)), "rows": int(rng.integers(4, 40))})
    return cases


def base_frame(rng, n, rid0=0, part=False, s_pos="middle"):
    import pandas as pd
    d = {"rid": np.arange(rid0, rid0 + n, dtype="int64"),
         "a": rng.integers(-100, 100, n).astype("int64"),
         "s": np.array(["t%d" % x for x in rng.integers(0, 30, n)], dtype=object),
         "f": rng.standard_normal(n)}
    # the text column is the one that late rejections hit: place it first / middle / last among the data columns
    order = {"first": ["rid", "s", "a", "f"], "middle": ["rid", "a", "s", "f"], "last": ["rid", "a", "f", "s"]}[s_pos]
    d = {k_: d[k_] for k_ in order}
    if part:
        d["p"] = np.array(["x", "y"], dtype=object)[rng.integers(0, 2, n)]
    return pd.DataFrame(d)


def make_bad(case, df, rng):
    """Return (frame, write kwargs overrides, is_read_op) for the rejected operation."""
    import pandas as pd
    kind, pos, rgpos = case["kind"], case["pos"], case["rgpos"]
    n = len(df)
    cols = [c for c in df.columns if c not in ("rid", "p")]
    target = {"first": cols[0], "middle": cols[len(cols) // 2], "last": cols[-1]}[pos]
    row = 0 if rgpos == "first" else n - 1
    kw = {}
    bad = df.copy()
    if kind == "complex_dtype":
        bad[target] = np.arange(n).astype("complex128")
    elif kind == "extension_object_dtype":
        # pandas extension dtypes of kind 'O' that the format has no mapping for; with an explicit object_encoding
        if case["seed"] % 2:
            bad[target] = pd.period_range("2020-01", periods=n, freq="M")
        else:
            bad[target] = pd.cut(np.arange(n), bins=3)
        kw["object_encoding"] = ["utf8", {"rid": "utf8"}][(case["seed"] // 2) % 2]
    elif kind == "nontext_name":
        bad = bad.rename(columns={target: 7})
    elif kind == "duplicate_name":
        other = [c for c in cols if c != target][0]
        bad = bad.rename(columns={target: other})
    elif kind == "none_in_required":
        bad["s"] = bad["s"].astype(object)
        bad.loc[row, "s"] = None
        kw["has_nulls"] = False
    elif kind == "na_in_required_int":
        # a missing value in a masked-integer column that the dataset declares non-nullable
        bad["m"] = bad["m"].copy()
        bad.loc[row, "m"] = pd.NA
        kw["has_nulls"] = case.get("has_nulls_mode", False)
    elif kind == "bad_object_encoding":
        bad["s"] = bad["s"].astype(object)
        kw["object_encoding"] = {"s": "int"}
    elif kind == "append_diff_columns":
        bad = bad.rename(columns={target: target + "_x"})
    elif kind == "append_extra_column":
        bad["zz"] = 1
    elif kind == "append_missing_column":
        bad = bad.drop(columns=[target])
    elif kind == "append_diff_dtype":
        if target == "s":
            bad["s"] = np.arange(n, dtype="int64")
        else:
            bad[target] = np.array(["q%d" % i for i in range(n)], dtype=object)
    elif kind == "append_diff_scheme":
        kw["file_scheme"] = "hive" if case["state"] == "simple" else "simple"
    elif kind == "append_diff_partitioning":
        kw["partition_on"] = ["a"] if case["state"] != "hive_part" else []
        if case["state"] == "simple":
            kw["file_scheme"] = "hive"
    elif kind == "append_unencodable_value":
        # a value that cannot be encoded as the stored type, at a chosen row of the text column
        bad["s"] = bad["s"].astype(object)
        bad.loc[row, "s"] = [b"bytes-not-text", 12345, 1.5][int(rng.integers(0, 3))]
    elif kind == "unknown_codec":
        kw["compression"] = "NOSUCHCODEC"
    elif kind == "bad_times":
        bad["when"] = pd.Timestamp("2020-01-01") + pd.to_timedelta(np.arange(n), "s")
        kw["times"] = "int128"
    return bad, kw


class _SourceBroke(Exception):
    """An exception of the caller's own making."""


def run_case(case):
    import pandas as pd
    import fastparquet
    from vf.props import common as C
    from vf.mon import fsmon
    from vf.mon import tables as T
    rng = np.random.default_rng([case["seed"], 18])
    state = case["state"]
    part = state == "hive_part"
    scheme = "simple" if state == "simple" else "hive"
    n = case.get("rows", 12)
    df0 = base_frame(rng, n, 0, part, case["pos"])
    if case["kind"] == "int32_object_overflow":
        nn_ = np.empty(n, dtype=object)
        nn_[:] = [int(x) for x in rng.integers(-1000, 1000, n)]
        nn_[1] = None
        df0["n"] = nn_
    if case["kind"] == "na_in_required_int":
        mdt = ["Int64", "Int32", "UInt16", "Int8"][case["seed"] % 4]
        case = dict(case, has_nulls_mode=[False, "infer"][(case["seed"] // 4) % 2])
        df0.insert({"first": 1, "middle": 2, "last": len(df0.columns)}[case["pos"]], "m", pd.array(np.arange(n) % 100, dtype=mdt))
    path = C.fresh_path(".parq" if scheme == "simple" else "")
    counters = {}
    res = {"features": [], "nontrivial": False, "failures": [], "counters": counters}
    base_kw = {"file_scheme": scheme}
    if part:
        base_kw["partition_on"] = ["p"]
    if case["nrg"] > 1:
        base_kw["row_group_offsets"] = max(1, n // case["nrg"])
    if case["kind"] == "na_in_required_int":
        base_kw["has_nulls"] = case["has_nulls_mode"]
    if case["kind"] == "int32_object_overflow":
        base_kw["object_encoding"] = dict({str(c_): "infer" for c_ in df0.columns}, n="int32", s="utf8")
    try:
        fastparquet.write(path, df0, **base_kw)
        if case["kind"] == "unknown_column_categories":
            # (without pandas metadata, as for files of other writers: there the request is not checked against recorded categoricals)
            from fastparquet.writer import update_file_custom_metadata
            update_file_custom_metadata(path if os.path.isfile(path) else os.path.join(path, "_metadata"), {"pandas": None})
        if case.get("removed_before"):
            pf_ = fastparquet.ParquetFile(path)
            rgs_ = [pf_.row_groups[i_] for i_ in case["removed_before"] if i_ < len(pf_.row_groups) - 1]
            if rgs_:
                pf_.remove_row_groups(rgs_)
                counters["datasets_with_removed_row_groups"] = 1
        if case.get("no_summary"):
            for nm_ in ("_metadata", "_common_metadata"):
                os.remove(os.path.join(path, nm_))
            counters["datasets_without_a_summary_file"] = 1
        before_tab = fastparquet.ParquetFile(path).to_pandas(index=False)
        before_schema = list(fastparquet.ParquetFile(path).schema.schema_elements)
        before_files = fsmon.snapshot(path)
        before_bytes = open(path, "rb").read() if os.path.isfile(path) else None
        ctx = {("rejection" if k == "kind" else k): case[k] for k in ("kind", "pos", "rgpos", "state", "nrg", "mode")}
        kind = case["kind"]
        n_new = case.get("new_rows", n)
        new = base_frame(rng, n_new, n, part, case["pos"])
        if kind == "na_in_required_int":
            new.insert(list(df0.columns).index("m"), "m", pd.array(np.arange(n_new) % 100, dtype=df0["m"].dtype))
        raised = None
        returned = False
        with fsmon.Audit(path) as aud:
            try:
                if kind in ("unknown_column_read", "unknown_column_filter", "unknown_column_categories"):
                    pf = fastparquet.ParquetFile(path)
                    if kind == "unknown_column_categories":
                        pf.to_pandas(categories={"nope": 5} if case["pos"] != "last" else ["nope"])
                    elif kind == "unknown_column_read":
                        pf.to_pandas(columns=["rid", "nope"])
                    else:
                        # the unknown column first / in the middle of an AND group / in a later OR group
                        flt = {"first": [("nope", "==", 1)],
                               "middle": [[("rid", ">=", 0), ("nope", "==", 1), ("a", "<", 10 ** 6)]],
                               "last": [[("rid", ">=", 0)], [("a", "<", 10 ** 6)], [("nope", "==", 1)]]}[case["pos"]]
                        if case["rgpos"] == "later":
                            list(pf.iter_row_groups(filters=flt))
                        else:
                            pf.to_pandas(filters=flt)
                    returned = True
                else:
                    if kind == "int32_object_overflow":
                        nn_ = np.empty(n_new, dtype=object)
                        nn_[:] = [int(x) for x in rng.integers(-1000, 1000, n_new)]
                        nn_[n_new - 1] = case["big_value"]
                        new["n"] = nn_
                        counters["int32_object_overflows_tried"] = 1
                    bad, kw = make_bad(case, new, rng) if not kind.startswith(("append_iterable_", "int32_object_", "remove_with_", "append_sort_key_")) else (new, {})
                    kws = dict(base_kw)
                    kws.update(kw)
                    if case["mode"] == "append":
                        kws["append"] = True
                    if case["nrg"] > 1:
                        kws["row_group_offsets"] = max(1, n_new // 2)
                    if kind == "remove_with_unknown_row_group":
                        import copy as _copy
                        kept = fastparquet.ParquetFile(path)
                        ghost = _copy.deepcopy(kept.row_groups[-1])
                        ghost.num_rows = ghost.num_rows + 1
                        counters["removals_naming_an_unknown_row_group"] = 1
                        kept.remove_row_groups([kept.row_groups[0], ghost])
                    elif kind.startswith("append_iterable_"):
                        def frames_():
                            for j_ in range(case["frames_before_failure"]):
                                yield base_frame(rng, 6, 10 ** 5 + 10 * j_, part, case["pos"])
                            if kind == "append_iterable_source_fails":
                                # (whatever the exception is: an I/O error class, or one the library has never heard of)
                                raise (ConnectionResetError if case["frames_before_failure"] % 2 else _SourceBroke)("the source of the frames broke down")
                            odd_ = base_frame(rng, 6, 10 ** 6, part, case["pos"])
                            if kind == "append_iterable_frame_has_extra_column":
                                odd_["extra_col"] = 1.5
                                yield odd_
                            else:
                                yield odd_.drop(columns=["a"])
                        counters["appends_from_iterables"] = 1
                        kept = fastparquet.ParquetFile(path)       # (used again after the refusal, see reuse_handle)
                        kept.write_row_groups(frames_())
                    elif kind == "append_sort_key_raises":
                        kept = fastparquet.ParquetFile(path)
                        counters["appends_whose_sort_key_raises"] = 1
                        kept.write_row_groups(new, sort_key=lambda rg: rg.columns[0].meta_data.statistics.min_value + b"")
                    elif case.get("reuse_handle"):
                        kept = fastparquet.ParquetFile(path)
                        bad_r = bad.reset_index(drop=True)
                        kept.write_row_groups(bad_r, row_group_offsets=[0, max(1, n_new // 2)])
                    else:
                        fastparquet.write(path, bad, **kws)
                    returned = True
            except Exception as e:
                raised = e
            except BaseException as e:
                res["failures"].append({"kind": "non_exception_raised", "type": type(e).__name__, **ctx})
                raised = e
        opened_w = sorted({os.path.relpath(ev[1], path) if os.path.isdir(path) else os.path.basename(ev[1])
                           for ev in aud.events if ev[0] == "open" and fsmon.is_write_mode(ev[2])})
        ctx["opened_for_writing"] = opened_w[:6]
        if raised is not None:
            ctx.update({("raised_" + k): v for k, v in C.exc_shape(raised).items()})
        if returned:
            counters["accepted"] = 1
            counters["accepted:" + kind] = 1
            if kind not in ("none_in_required", "na_in_required_int", "bad_object_encoding", "append_unencodable_value"):
                # a rejection the statement names without any premise about the existing dataset: not raising is the violation
                # (bad_object_encoding / unencodable values on append follow the stored schema, not the argument: no premise to state)
                res["failures"].append({"kind": "operation_accepted_although_the_statement_names_its_refusal", **ctx})
            if kind in ("none_in_required", "na_in_required_int"):
                # the statement names this rejection: a missing value in a column DECLARED non-nullable.  The premise is checked, not
                # assumed: for an append the existing dataset's schema must say REQUIRED for that column
                col = "s" if kind == "none_in_required" else "m"
                declared_required = None
                try:
                    se = [e for e in before_schema if e.name == col]
                    declared_required = bool(se) and se[0].repetition_type == 0
                except Exception:
                    pass
                if case["mode"] == "rewrite":
                    declared_required = True
                counters["premise_checked"] = counters.get("premise_checked", 0) + 1
                if declared_required:
                    res["failures"].append({"kind": "accepted_although_column_declared_non_nullable", "column": col, **ctx})
        else:
            counters["rejected"] = 1
            counters["rejected:" + type(raised).__name__] = 1
        # the pre-existing dataset afterwards
        if case["mode"] == "rewrite" and returned:
            res["outcome"] = "ok"   # a successful fresh write legitimately replaces the dataset
            res["features"] = [kind, "accepted-rewrite"]
            return res
        try:
            after_tab = fastparquet.ParquetFile(path).to_pandas(index=False)
        except Exception as e:
            res["failures"].append({"kind": "dataset_unreadable_after_rejection" if not returned else "dataset_unreadable_after_accepted_op",
                                    **ctx, **C.exc_shape(e)})
            res["outcome"] = "ok"
            res["nontrivial"] = True
            res["features"] = [ctx[k] for k in ("rejection", "pos", "rgpos", "state", "nrg", "mode")]
            return res
        if not returned:
            fl = T.same_table(before_tab, after_tab, check_index=False, cat_strict=False) if list(before_tab.columns) == list(after_tab.columns) \
                else [{"kind": "columns", "expected": list(map(str, before_tab.columns)), "got": list(map(str, after_tab.columns))}]
            for f in fl:
                f["kind"] = "content_changed_after_rejection:" + f["kind"]
                f.update(ctx)
            res["failures"] += fl
            counters["snapshots_compared"] = 1
            if before_bytes is not None and case["mode"] == "append":
                after_bytes = open(path, "rb").read()
                counters["single_file_bytes_compared"] = 1
                if after_bytes != before_bytes:
                    res["failures"].append({"kind": "single_file_bytes_changed_after_rejected_append", "size_before": len(before_bytes), "size_after": len(after_bytes),
                                            "common_prefix": next((i_ for i_, (a_, b_) in enumerate(zip(before_bytes, after_bytes)) if a_ != b_), min(len(before_bytes), len(after_bytes))),
                                            **ctx})
            # every file that existed must still parse on its own
            if os.path.isdir(path):
                for rel in before_files:
                    if fsmon.is_meta(rel):
                        continue
                    try:
                        fastparquet.ParquetFile(os.path.join(path, rel)).to_pandas()
                    except Exception as e:
                        res["failures"].append({"kind": "existing_part_file_unreadable_after_rejection", "file": rel, **ctx, **C.exc_shape(e)})
        else:
            # accepted: the old rows must still be there, unchanged and first
            old = after_tab[after_tab["rid"] < n] if "rid" in after_tab else after_tab.iloc[0:0]
            if len(old) != len(before_tab) or (("rid" in after_tab) and sorted(old["rid"].tolist()) != sorted(before_tab["rid"].tolist())):
                res["failures"].append({"kind": "old_rows_lost_after_accepted_op", "expected": len(before_tab), "got": len(old), **ctx})
        if case.get("reuse_handle") and not returned:
            try:
                good = base_frame(rng, 5, 10 ** 6, part, case["pos"])
                if kind == "na_in_required_int":
                    good.insert(list(df0.columns).index("m"), "m", pd.array(np.arange(5), dtype=df0["m"].dtype))
                if kind == "remove_with_unknown_row_group":
                    # the next use of the handle is a removal it can do
                    gone_ = fastparquet.ParquetFile(path)[1:2].to_pandas(index=False)["rid"].tolist()
                    kept.remove_row_groups([kept.row_groups[1]])
                    good = good.iloc[0:0]
                    before_rids_ = [r_ for r_ in before_tab["rid"].tolist() if r_ not in set(gone_)]
                else:
                    kept.write_row_groups(good)
                    before_rids_ = before_tab["rid"].tolist()
                after2 = fastparquet.ParquetFile(path).to_pandas(index=False)
                want = sorted(before_rids_ + good["rid"].tolist())
                got_r = sorted(int(x) for x in after2["rid"].tolist())
                counters["kept_handle_followups"] = counters.get("kept_handle_followups", 0) + 1
                if got_r != want:
                    res["failures"].append({"kind": "rows_of_refused_frame_persisted_by_later_append", "unexpected": sorted(set(got_r) - set(want))[:6],
                                            "missing": sorted(set(want) - set(got_r))[:6], **ctx})
                # the footer written by that later append describes the file (row count = sum over its row groups, ...)
                from vf.ref import reader as R_
                top_ = path if os.path.isfile(path) else os.path.join(path, "_metadata")
                for code, where, detail in R_.read_file(top_, data_dir=os.path.dirname(top_), check_pages=False).diags:
                    res["failures"].append({"kind": "footer_invalid_after_append_following_a_refusal", "code": code, "where": where, "detail": detail[:100], **ctx})
                counters["footers_validated_after_followup"] = counters.get("footers_validated_after_followup", 0) + 1
            except Exception as e:
                res["failures"].append({"kind": "append_through_kept_handle_after_refusal_raised", **ctx, **C.exc_shape(e)})
        res["outcome"] = "ok"
        res["nontrivial"] = not returned
        res["features"] = [ctx[k] for k in ("rejection", "pos", "rgpos", "state", "nrg", "mode")]
        res["sample"] = {"case": {k: case[k] for k in ("kind", "pos", "rgpos", "state", "nrg", "mode")}, "raised": type(raised).__name__ if raised else None,
                         "opened_for_writing": opened_w[:4]}
        return res
    finally:
        C.cleanup(path)


def required(tier):
    return {"rejected": 300, "snapshots_compared": 300, "datasets_with_removed_row_groups": 20, "appends_from_iterables": 12, "int32_object_overflows_tried": 10, "footers_validated_after_followup": 10, "removals_naming_an_unknown_row_group": 3, "datasets_without_a_summary_file": 10, "appends_whose_sort_key_raises": 3}
