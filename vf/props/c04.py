"""C04 - column statistics are exact: min/max/null_count describe the stored chunk (DESIGN.md 5/C04)."""
import math
import struct

import numpy as np

ID = "C04"
LEVEL = "exploration"
FLAVOUR = "plain"
TECHNIQUE = "runtime monitor: per-chunk statistics (raw Statistics bytes decoded by the independent reader) vs min/max/null tally recomputed from the values that reader decodes from the same chunk; user-facing ParquetFile.statistics and sorted_partitioned_columns vs the same ground truth"
RULE = ("C01 frames with adversarial distributions (extremes on page boundaries, all equal, single non-null, NaN/inf/-0.0, unsigned >= 2^63, "
        "tz-aware, categoricals whose category order differs from value order incl. unused categories, unicode) x row-group splits x "
        "stats in {True, 'auto', list} x v1/v2 pages; one evaluation = one written file; non-trivial = >=1 chunk with statistics compared; "
        "distinct = distinct (kinds, null patterns, dpv, stats setting, row-group split) tuples")
ASSUMPTIONS = ["ground truth = what vf/ref decodes from the chunk (describes what is stored, not what was intended)",
               "+0.0 and -0.0 are treated as equal bounds; NaN is ignored for bounds (format rule)"]
CASE_TIMEOUT = 120

from vf.gen import frames as F
from vf.gen import options as O
from vf.props import c01

KINDS = [k for k in F.ALL_KINDS if k not in ("json",)]


def gen_cases(tier, seed):
    rng = np.random.default_rng([seed, 404])
    cases = []
    n = 500 if tier == "quick" else 10000
    for i in range(n):
        c = c01.random_case(rng, "S/%d/%d" % (seed, i), kinds=KINDS, max_cols=5)
        c["opts"]["stats"] = [True, True, "auto", [col["name"] for col in c["frame"]["cols"][::2]]][i % 4]
        c["opts"]["file_scheme"] = "simple" if i % 3 else "hive"
        nrows = c["frame"]["nrows"]
        if i % 2 == 0 and nrows > 3:
            c["opts"]["row_group_offsets"] = max(1, nrows // int(rng.integers(2, 6)))
        if i % 5 == 0:
            for col in c["frame"]["cols"]:
                col["vals"] = "small"
        if i % 7 == 3:
            # text / binary columns holding only long values with long common prefixes
            for col in c["frame"]["cols"]:
                if col["kind"] in ("str", "ostr", "bytes"):
                    col["vals"] = "long"
            if not any(col["kind"] in ("str", "ostr", "bytes") for col in c["frame"]["cols"]):
                c["frame"]["cols"].append({"name": "longtext", "kind": ["str", "ostr", "bytes"][i % 3], "nulls": "p20", "vals": "long"})
            c["opts"]["stats"] = True
        if i % 13 == 6 and not isinstance(c["opts"].get("object_encoding"), str):
            # fixed-width text / binary (FIXED_LEN_BYTE_ARRAY): values are cut or NUL-padded to the width, bounds must be the stored ones
            c["frame"]["cols"].append({"name": "fx", "kind": "ostr", "nulls": ["none", "p20"][i % 2], "vals": "small"})
            c["frame"]["cols"].append({"name": "fy", "kind": "bytes", "nulls": "none", "vals": "edge"})
            c["opts"]["fixed_text"] = {"fx": 1, "fy": 3}
            if isinstance(c["opts"].get("object_encoding"), dict):
                c["opts"]["object_encoding"].update({"fx": "utf8", "fy": "bytes"})
            c["opts"]["stats"] = True
            c["fixed_text"] = True
        if i % 17 == 8 and not isinstance(c["opts"].get("object_encoding"), str):
            # values of several kilobytes: a bound is the whole value, however long
            # (no missing values: an object column holding None gets no bounds at all from this writer)
            c["frame"]["cols"].append({"name": "huge", "kind": ["ostr", "str"][i % 2], "nulls": "none", "vals": "huge"})
            if isinstance(c["opts"].get("object_encoding"), dict):
                c["opts"]["object_encoding"]["huge"] = "utf8"
            c["opts"]["stats"] = True
            c["huge_values"] = True
        if i % 11 == 5 and not isinstance(c["opts"].get("object_encoding"), str):
            # a JSON column whose Python values are orderable
            c["frame"]["cols"].append({"name": "jl", "kind": "json", "nulls": "p20", "vals": "lists"})
            if isinstance(c["opts"].get("object_encoding"), dict):
                c["opts"]["object_encoding"]["jl"] = "json"
            c["opts"]["stats"] = True
            c["json_lists"] = True
        cases.append(c)
    return cases


def order_key(ptype, kind):
    """key function implementing the Parquet ordering of a physical type + logical annotation; None = no defined order."""
    if ptype == "INT96":
        # no order is defined by the format; chronological order is used only to judge whether bounds that ARE present are right
        return lambda v: (struct.unpack("<qi", v)[1], struct.unpack("<qi", v)[0])
    if ptype in ("INT32", "INT64"):
        if kind[0] == "uint":
            bits = 32 if ptype == "INT32" else 64
            return lambda v: int(v) & ((1 << bits) - 1)
        return lambda v: int(v)
    if ptype in ("FLOAT", "DOUBLE"):
        return lambda v: float(v)
    if ptype == "BOOLEAN":
        return lambda v: bool(v)
    if ptype in ("BYTE_ARRAY", "FIXED_LEN_BYTE_ARRAY"):
        return lambda v: bytes(v)
    return None


def decode_stat(ptype, raw, tlen):
    from vf.ref import encodings as E
    if raw is None:
        return None
    if ptype in ("BYTE_ARRAY", "FIXED_LEN_BYTE_ARRAY"):
        return bytes(raw)
    if ptype == "BOOLEAN":
        return bool(raw[0] & 1) if len(raw) else None
    vals, _ = E.plain_decode(ptype, raw, 1, 0, tlen)
    return vals[0]


def run_case(case):
    import pandas as pd
    import fastparquet
    import fastparquet.api as A
    from vf.props import common as C
    from vf.ref import reader as R
    from vf.mon import tables as T
    df = F.build_frame(case["frame"])
    opts = case["opts"]
    scheme = opts.get("file_scheme", "simple")
    path = C.fresh_path(".parq" if scheme == "simple" else "")
    counters = {}
    res = {"features": [], "nontrivial": False, "failures": [], "counters": counters}
    try:
        with C.writer_globals(case.get("page_size"), case.get("dpv")):
            try:
                fastparquet.write(path, df, **C.write_kwargs(opts))
            except Exception:
                res["outcome"] = "rejected"
                counters["write_rejected"] = 1
                return res
        import os
        top = os.path.join(path, "_metadata") if os.path.isdir(path) else path
        info = R.read_file(top, data_dir=os.path.dirname(top))
        if any(d[0] in ("MAGIC_TAIL", "FOOTER_LEN") for d in info.diags):
            res["outcome"] = "skip"
            return res
        kinds = {c["name"]: c["kind"] for c in case["frame"]["cols"]}
        truth = {}   # (column, rg) -> (min, max, nulls, n) in physical values
        n_stat = 0
        ctx0 = {"dpv": case.get("dpv"), "stats": opts["stats"] if not isinstance(opts["stats"], list) else "list", "scheme": scheme}
        for path_, col in info.columns.items():
            name = ".".join(path_)
            ptype = R.TYPES[col.leaf.type]
            lk = R.logical_kind(col.leaf.se)
            key = order_key(ptype, lk)
            tlen = col.leaf.se.get("type_length")
            for gi, ch in enumerate(col.chunks):
                if "values" not in ch:
                    continue
                vals = [v for v in col.values[ch["values"][0]:ch["values"][1]] if v is not None]   # None: undecodable index (C02's subject)
                if ptype in ("FLOAT", "DOUBLE"):
                    vals = [v for v in vals if not math.isnan(v)]
                if lk[0] in ("timestamp", "time") and ptype == "INT64":
                    # NaT kept as the int64-min sentinel in a REQUIRED column is the time analogue of NaN: ignored for bounds
                    vals = [v for v in vals if v != -2 ** 63]
                if ptype == "INT96":
                    vals = [v for v in vals if struct.unpack("<qi", v) != ((-2 ** 63) % (86400 * 10 ** 9), (-2 ** 63) // (86400 * 10 ** 9) + 2440588)]
                st = ch.get("statistics") or {}
                ctx = dict(ctx0, column=name, row_group=gi, ptype=ptype, logical=lk[0], col_kind=kinds.get(name), n_values=len(vals), nulls=ch["nulls"])
                smin = st.get("min") if st.get("min") is not None else st.get("min_value")
                smax = st.get("max") if st.get("max") is not None else st.get("max_value")
                if st.get("null_count") is not None:
                    counters["null_counts_compared"] = counters.get("null_counts_compared", 0) + 1
                    if st["null_count"] != ch["nulls"]:
                        res["failures"].append({"kind": "null_count_wrong", "stat": st["null_count"], "actual": ch["nulls"], **ctx})
                if name == "huge" and case.get("huge_values"):
                    counters["chunks_of_kilobyte_values_examined"] = counters.get("chunks_of_kilobyte_values_examined", 0) + 1
                if ptype == "FIXED_LEN_BYTE_ARRAY" and case.get("fixed_text"):
                    counters["fixed_width_text_chunks_examined"] = counters.get("fixed_width_text_chunks_examined", 0) + 1
                if kinds.get(name) == "json" and case.get("json_lists"):
                    counters["orderable_json_chunks_examined"] = counters.get("orderable_json_chunks_examined", 0) + 1
                if smin is None and smax is None:
                    truth[(name, gi)] = (None, None)
                    continue
                n_stat += 1
                counters["chunks_with_minmax"] = counters.get("chunks_with_minmax", 0) + 1
                if ptype == "INT96":
                    res["failures"].append({"kind": "minmax_for_type_without_order", **ctx})
                if not vals:
                    res["failures"].append({"kind": "minmax_on_chunk_without_values", **ctx})
                    continue
                try:
                    dmin, dmax = decode_stat(ptype, smin, tlen), decode_stat(ptype, smax, tlen)
                except Exception as e:
                    res["failures"].append({"kind": "stat_not_decodable", "err": repr(e)[:100], **ctx})
                    continue
                tmin, tmax = min(vals, key=key), max(vals, key=key)
                truth[(name, gi)] = (tmin, tmax)
                if dmin is None or key(dmin) != key(tmin):
                    res["failures"].append({"kind": "min_not_exact", "stat": repr(dmin)[:60], "actual": repr(tmin)[:60], **ctx})
                if dmax is None or key(dmax) != key(tmax):
                    res["failures"].append({"kind": "max_not_exact", "stat": repr(dmax)[:60], "actual": repr(tmax)[:60], **ctx})
        # ---- user-facing statistics
        pf = fastparquet.ParquetFile(path)
        try:
            s = pf.statistics
            spc = A.sorted_partitioned_columns(pf)
        except Exception as e:
            res["failures"].append({"kind": "statistics_api_raised", **ctx0, **C.exc_shape(e)})
            s, spc = None, {}
        if s is not None:
            for path_, col in info.columns.items():
                name = ".".join(path_)
                if name not in s["min"]:
                    continue
                ptype = R.TYPES[col.leaf.type]
                lk = R.logical_kind(col.leaf.se)
                for gi, ch in enumerate(col.chunks):
                    if (name, gi) not in truth or truth[(name, gi)][0] is None:
                        continue
                    for which, idx in (("min", 0), ("max", 1)):
                        lst = s[which][name]
                        raw_everywhere = all(((c_.get("statistics") or {}).get(which) is not None or (c_.get("statistics") or {}).get(which + "_value") is not None)
                                             for c_ in col.chunks)
                        if lst is None or len(lst) <= gi or lst[gi] is None:
                            # the API gives [None] for the whole column when any row group lacks the stat; but a bound that every chunk
                            # of the column stores must be exposed
                            if raw_everywhere:
                                res["failures"].append({"kind": "api_statistic_missing_although_stored", "which": which, "column": name, "row_group": gi,
                                                        "stored": repr(truth[(name, gi)][idx])[:60], "ptype": ptype, "logical": lk[0],
                                                        "col_kind": kinds.get(name), **ctx0})
                            continue
                        api_v = lst[gi]
                        want = R.convert_value(truth[(name, gi)][idx], ptype, lk)
                        got = api_canon(api_v, lk, ptype)
                        counters["api_stats_compared"] = counters.get("api_stats_compared", 0) + 1
                        if ptype == "FIXED_LEN_BYTE_ARRAY" and case.get("fixed_text"):
                            # the trailing NULs are the padding to the fixed width, not part of the value that was written
                            unpad = lambda t_: (t_[0], t_[1].rstrip("\x00" if isinstance(t_[1], str) else b"\x00")) if isinstance(t_, tuple) and len(t_) == 2 and isinstance(t_[1], (str, bytes)) else t_
                            want, got = unpad(want), unpad(got)
                        if not same_logical(want, got):
                            res["failures"].append({"kind": "api_statistic_differs", "which": which, "column": name, "row_group": gi,
                                                    "api": repr(api_v)[:60], "api_canon": repr(got)[:60], "actual": repr(want)[:60],
                                                    "ptype": ptype, "logical": lk[0], "col_kind": kinds.get(name), **ctx0})
                    nc = s["null_count"][name]
                    if nc is not None and len(nc) > gi and nc[gi] is not None and nc[gi] != ch["nulls"]:
                        res["failures"].append({"kind": "api_null_count_differs", "column": name, "row_group": gi, "api": nc[gi], "actual": ch["nulls"], **ctx0})
            # sorted_partitioned_columns: every reported column really is sorted across row groups
            for name in spc:
                col = info.columns.get((name,))
                if col is None:
                    continue
                ptype = R.TYPES[col.leaf.type]
                key = order_key(ptype, R.logical_kind(col.leaf.se))
                prev = None
                ok = True
                for gi, ch in enumerate(col.chunks):
                    vals = [v for v in col.values[ch["values"][0]:ch["values"][1]] if v is not None] if "values" in ch else []
                    if ptype in ("FLOAT", "DOUBLE"):
                        vals = [v for v in vals if not math.isnan(v)]
                    if ptype == "INT64":
                        vals = [v for v in vals if v != -2 ** 63]
                    if not vals or key is None:
                        continue
                    lo, hi = min(vals, key=key), max(vals, key=key)
                    if prev is not None and not key(prev) < key(lo):
                        ok = False
                    prev = hi
                counters["sorted_columns_checked"] = counters.get("sorted_columns_checked", 0) + 1
                if not ok:
                    res["failures"].append({"kind": "column_reported_sorted_is_not", "column": name, "col_kind": kinds.get(name), **ctx0})
        # ---- the statistics a handle exposes must follow the handle: repeated queries (with and without filters) and in-place edits
        if s is not None and opts.get("file_scheme") == "hive" and len(pf.row_groups) >= 2:
            def snap(h):
                st = h.statistics
                return {w: {c_: (None if v_ is None else [repr(x_) for x_ in v_]) for c_, v_ in st[w].items()} for w in ("min", "max", "null_count")}
            try:
                base = snap(pf)
                first = next((c_ for c_, v_ in pf.statistics["min"].items() if v_ and v_[0] is not None and c_ in ("rid",)), None)
                if first is not None:
                    A.sorted_partitioned_columns(pf, filters=[(first, ">", pf.statistics["min"][first][0])])
                    A.sorted_partitioned_columns(pf)
                    if snap(pf) != base:
                        res["failures"].append({"kind": "statistics_changed_by_a_query", **ctx0})
                    counters["statistics_requeried"] = counters.get("statistics_requeried", 0) + 1
                pf.remove_row_groups(pf.row_groups[0])
                kept, fresh = snap(pf), snap(fastparquet.ParquetFile(path))
                counters["statistics_after_edit_compared"] = counters.get("statistics_after_edit_compared", 0) + 1
                if kept != fresh:
                    res["failures"].append({"kind": "statistics_of_kept_handle_stale_after_edit", "kept_row_groups": len(pf.row_groups),
                                            "kept_stat_len": max([len(v_) for v_ in kept["null_count"].values() if v_ is not None] or [0]), **ctx0})
            except Exception as e:
                res["failures"].append({"kind": "statistics_followup_raised", **ctx0, **C.exc_shape(e)})
        # ---- the same after an append made through the handle (any scheme), and for handles sliced from one whose statistics were read
        if s is not None and len(pf.row_groups) >= 1:
            def snap2(h):
                st = h.statistics
                return {w: {c_: (None if v_ is None else [repr(x_) for x_ in v_]) for c_, v_ in st[w].items()} for w in ("min", "max", "null_count")}
            step = "warm"
            try:
                from fastparquet.writer import reset_row_idx
                snap2(pf)
                step = "write_row_groups"
                try:
                    pf.write_row_groups(reset_row_idx(df) if pf._get_index() else df)
                    appended = True
                except Exception:
                    appended = False
                    counters["statistics_append_refused"] = counters.get("statistics_append_refused", 0) + 1
                fresh_pf = fastparquet.ParquetFile(path)
                if appended:
                    if snap2(pf) != snap2(fresh_pf):
                        res["failures"].append({"kind": "statistics_of_kept_handle_stale_after_edit", "edit": "write_row_groups", "kept_row_groups": len(pf.row_groups), **ctx0})
                    counters["statistics_after_append_compared"] = counters.get("statistics_after_append_compared", 0) + 1
                step = "slice"
                n_ = len(pf.row_groups)
                for sl in (slice(1, None), slice(0, max(1, n_ // 2)), slice(None, None, 2)):
                    if snap2(pf[sl]) != snap2(fastparquet.ParquetFile(path)[sl]):
                        res["failures"].append({"kind": "statistics_of_sliced_handle_depend_on_the_parent", "slice": str(sl), "row_groups": n_, **ctx0})
                    counters["sliced_statistics_compared"] = counters.get("sliced_statistics_compared", 0) + 1
            except Exception as e:
                res["failures"].append({"kind": "statistics_followup_raised", "step": step, **ctx0, **C.exc_shape(e)})
        res["outcome"] = "ok"
        res["nontrivial"] = n_stat > 0
        f = c01.features(case, len(df))
        res["features"] = [f[0], f[1], f[3], ctx0["stats"], f[11]]
        res["sample"] = {"frame": case["frame"], "opts": opts, "chunks_with_minmax": n_stat}
        return res
    finally:
        C.cleanup(path)


def api_canon(v, lk, ptype):
    """Canonical logical value (vf.ref.reader.convert_value form) of what ParquetFile.statistics returned."""
    import pandas as pd
    if isinstance(v, (np.datetime64, pd.Timestamp)):
        t = pd.Timestamp(v)
        return ("tns", int(t.as_unit("ns").value))
    if isinstance(v, (np.timedelta64, pd.Timedelta)):
        return ("dns", int(pd.Timedelta(v).as_unit("ns").value))
    if isinstance(v, (bool, np.bool_)):
        return ("b", bool(v))
    if isinstance(v, (int, np.integer)):
        return int(v)
    if isinstance(v, (float, np.floating)):
        return ("f", float(v))
    if isinstance(v, str):
        return ("s", v)
    if isinstance(v, (bytes, np.bytes_)):
        return ("y", bytes(v))
    return ("?", repr(v))


def same_logical(want, got):
    mult = {"tms": 10 ** 6, "tus": 10 ** 3, "tns": 1, "dus": 10 ** 3, "dms": 10 ** 6, "dns": 1}
    if isinstance(want, tuple) and want[0] in mult and isinstance(got, tuple) and got[0] in ("tns", "dns"):
        return want[1] * mult[want[0]] == got[1]
    if isinstance(want, tuple) and want[0] in ("f4", "f8") and isinstance(got, tuple) and got[0] == "f":
        f = struct.unpack("<f", struct.pack("<I", want[1]))[0] if want[0] == "f4" else struct.unpack("<d", struct.pack("<Q", want[1]))[0]
        return f == got[1]
    if isinstance(want, tuple) and want[0] == "s" and isinstance(got, tuple) and got[0] == "y":
        return want[1].encode("utf8") == got[1]
    if isinstance(want, tuple) and want[0] == "y" and isinstance(got, tuple) and got[0] == "s":
        return want[1] == got[1].encode("utf8")
    if isinstance(want, tuple) and want[0] == "json":
        return True
    return want == got


def required(tier):
    return {"chunks_with_minmax": 1500, "null_counts_compared": 1500, "api_stats_compared": 1500, "sorted_columns_checked": 50, "statistics_after_edit_compared": 20, "statistics_after_append_compared": 100, "sliced_statistics_compared": 300, "orderable_json_chunks_examined": 20, "fixed_width_text_chunks_examined": 20, "chunks_of_kilobyte_values_examined": 10}
