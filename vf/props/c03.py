"""C03 - valid flat Parquet files from any writer decode to exactly what they encode (DESIGN.md 5/C03)."""
import itertools
import zlib
import struct

import numpy as np

ID = "C03"
LEVEL = "exploration"
FLAVOUR = "plain"
TECHNIQUE = "runtime monitor: files emitted by an independent specification-level encoder (vf/ref/writer.py, validated by vf/ref/reader.py) are read with the library; API-boundary equality against the values the recipe encoded; unsupported encodings must be refused"
RULE = ("core lattice: physical x converted/logical type x {PLAIN, dictionary with index widths 0..32 and RLE / bit-packed / mixed run plans, "
        "RLE booleans, DELTA_BINARY_PACKED with delta widths 0..64 and block shapes 128/4, 256/8, 1024/32} x definition levels as RLE / "
        "bit-packed / mixed x page version 1/2 (is_compressed true/false/absent) x page boundaries x codecs x OPTIONAL/REQUIRED x null "
        "patterns x 1-4 row groups x dictionary fallback, plus seeded random recipes; plus files using unsupported encodings/codecs that must "
        "be refused.  non-trivial = a file the library read and whose cells were compared; distinct = distinct (type, encoding, index/delta "
        "width class, page version, level plan, codec, nulls, fallback) tuples")
ASSUMPTIONS = ["every generated file is first validated and decoded by the reference reader (a file it rejects or decodes differently makes the case a harness error, not a verdict)",
               "NaN and NULL are not distinguished in float columns on the pandas side"]
CASE_TIMEOUT = 120

from vf.gen import recipes as RC


def _col(type_, **kw):
    c = {"name": "c", "type": type_, "optional": False, "nulls": "none", "use_dict": False, "distinct": None, "dict_extra": 0, "dict_fallback_page": None,
         "dict_encoding_id": 8, "encoding": "PLAIN", "page_rows": [10 ** 9], "page_version": 1, "def_plan": "rle", "idx_plan": "bp",
         "v2_compressed": True, "delta_shape": (128, 4), "delta_bits": 8, "write_stats": True}
    c.update(kw)
    return c


def gen_cases(tier, seed):
    cases = []
    k = [0]

    def add(cid, cols, rgs=(60,), codec="UNCOMPRESSED", **extra):
        k[0] += 1
        rec = {"seed": 3000 + k[0], "flat": True, "row_groups": list(rgs), "codec": codec, "columns": cols}
        if extra.get("with_kv"):
            rec["kv"] = [("writer.note", "kept")]
        if extra.get("pandas_units_"):
            rec["pandas_units"] = extra.pop("pandas_units_")
        cases.append(dict({"id": cid, "recipe": rec}, **extra))

    quick = tier == "quick"
    # --- every type: PLAIN / dict, v1 / v2, required / optional with null patterns
    for t in RC.FLAT_TYPES:
        for ver, opt, nulls, use_dict in itertools.product([1, 2], [False, True], ["none", "p20", "all", "runs"], [False, True]):
            if not opt and nulls != "none":
                continue
            if quick and (zlib.crc32(repr((t[0], ver, opt, nulls, use_dict)).encode()) % 3):
                continue
            if use_dict and t[1] == "BOOLEAN":
                continue
            add("T/%s/v%d/%s/%s/%s" % (t[0], ver, "opt" if opt else "req", nulls, "dict" if use_dict else "plain"),
                [_col(t[0], optional=opt, nulls=nulls, use_dict=use_dict, distinct=9 if use_dict else None, page_version=ver,
                      page_rows=[17, 5, 40], def_plan=["rle", "bp", "mixed"][k[0] % 3], idx_plan=["bp", "rle", "mixed"][k[0] % 3])],
                rgs=(60, 1, 33), codec=RC.CODECS[k[0] % len(RC.CODECS)])
    # --- dictionary index widths 0..32
    for w in range(0, 33):
        for ver in (1, 2):
            for plan in (["bp", "rle", "mixed"] if not quick else [["bp", "rle", "mixed"][w % 3]]):
                # dictionary sizes at both ends of what needs w bits (2^(w-1)+1 .. 2^w - 1), capped; rows >> dictionary so high codes occur
                sizes = [1] if w == 0 else sorted({min((1 << (w - 1)) + 1, 700), min((1 << w) - 1, 700), min(1 << w, 700)})
                for distinct in sizes:
                    add("W/%d/v%d/%s/d%d" % (w, ver, plan, distinct),
                        [_col(["i64", "utf8", "f64"][distinct % 3], use_dict=True, distinct=distinct, idx_plan=plan, page_version=ver, page_rows=[333, 640], min_index_width=w,
                              optional=bool(w % 2), nulls="p20" if w % 2 else "none")], rgs=(1500,), width=w)
    # --- delta widths 0..64
    for bits in range(0, 65):
        for ptype in ("i32", "i64"):
            if ptype == "i32" and bits > 32:
                continue
            for ver in ((1, 2) if not quick else (1 + bits % 2,)):
                for shape in ([(128, 4), (256, 8), (1024, 32)] if not quick else [[(128, 4), (256, 8), (1024, 32)][bits % 3]]):
                    add("D/%s/b%d/v%d/%d" % (ptype, bits, ver, shape[0]),
                        [_col(ptype, encoding="DELTA_BINARY_PACKED", delta_bits=bits, delta_shape=shape, page_version=ver, page_rows=[1, 130, 257][bits % 3:] + [70])],
                        rgs=(300,), delta_bits=bits)
    # --- RLE booleans
    for ver in (1, 2):
        for plan in ("rle", "bp", "mixed"):
            for opt in (False, True):
                add("B/v%d/%s/%s" % (ver, plan, opt), [_col("bool", encoding="RLE", idx_plan=plan, page_version=ver, optional=opt, nulls="p20" if opt else "none",
                                                         page_rows=[9, 64, 3])], rgs=(100, 7))
    # --- dictionary fallback, v2 compressed flag variants, codecs
    for t in ("i32", "f64", "utf8", "i64", "bytes"):
        for fb in (1, 2):
            add("F/%s/%d" % (t, fb), [_col(t, use_dict=True, distinct=5, dict_fallback_page=fb, page_rows=[20], optional=True, nulls="p20")], rgs=(90,))
    for codec in RC.CODECS:
        for flag in (True, False, None):
            add("Z/%s/%s" % (codec, flag), [_col("i64", page_version=2, v2_compressed=flag, page_rows=[25]), _col("utf8", name="s", page_version=2, v2_compressed=flag,
                                                                                                                   use_dict=True, distinct=4, optional=True, nulls="alt")],
                rgs=(80,), codec=codec)
    # --- a file of another writer to which fastparquet then appends: the other writer's row groups must still decode to what they encode
    #     (level blocks in two runs / bit-packed on null-free OPTIONAL columns, dictionary indices of width 8 in mixed runs, statistics present)
    for t in ("i32", "i64", "f64", "utf8"):
        for ver, dplan, use_dict, with_kv in itertools.product((1, 2), ("mixed", "bp"), (False, True), (False, True)):
            if quick and (zlib.crc32(repr((t, ver, dplan, use_dict, with_kv)).encode()) % 2):
                continue
            add("AP/%s/v%d/%s/%s/%s" % (t, ver, dplan, "dict" if use_dict else "plain", "kv" if with_kv else "nokv"),
                [_col(t, optional=True, nulls="none", use_dict=use_dict, distinct=200 if use_dict else None, page_version=ver, page_rows=[23, 40], def_plan=dplan, idx_plan="mixed", min_index_width=8),
                 _col("i64", name="x", optional=True, nulls="p20", page_version=ver, def_plan=dplan)],
                rgs=(300, 57), then_append=True, with_kv=with_kv)
    # --- a dictionary-encoded column chunk without any value (all rows NULL): a dictionary page with zero entries and zero bytes
    for t in ("i32", "i64", "f64", "utf8", "bytes", "ts_us"):
        for ver in (1, 2):
            for codec in ("UNCOMPRESSED", "SNAPPY"):
                add("E/%s/v%d/%s" % (t, ver, codec),
                    [_col(t, optional=True, nulls="all", use_dict=True, dict_when_empty=True, page_version=ver, page_rows=[9, 30]), _col("i64", name="x", page_version=ver)],
                    rgs=(25, 8), codec=codec, empty_dictionary=True)
    # --- time columns whose pandas metadata asks for a finer resolution than the stored one (what pyarrow writes with coerce_timestamps, and
    #     what pandas' own default timedelta64[ns] -> TIME_MICROS gives): the reader has to rescale, on every page path
    finer = {"ts_ms": ["ms", "us", "ns"], "ts_ms_l": ["us", "ns"], "ts_us": ["us", "ns"], "ts_us_l": ["ns"], "time_ms": ["us", "ns"], "time_us": ["us", "ns"]}
    for t, units in finer.items():
        for u in units:
            for ver, (opt, nulls), use_dict in itertools.product((1, 2), ((False, "none"), (True, "none"), (True, "p20")), (False, True)):
                if quick and (zlib.crc32(repr((t, u, ver, opt, nulls, use_dict)).encode()) % 2):
                    continue
                add("PM/%s/%s/v%d/%s/%s/%s" % (t, u, ver, "opt" if opt else "req", nulls, "dict" if use_dict else "plain"),
                    [_col(t, optional=opt, nulls=nulls, use_dict=use_dict, distinct=7 if use_dict else None, page_version=ver, page_rows=[11, 30]),
                     _col("f64", name="x", page_version=ver)],
                    rgs=(41, 20), codec=RC.CODECS[k[0] % len(RC.CODECS)], pandas_units_={"c": u})
    # --- the same with DELTA_BINARY_PACKED values (another in-place path of v2 pages)
    for t, units in finer.items():
        if not t.startswith("ts_"):
            continue
        for u in units:
            for ver in (1, 2):
                add("PD/%s/%s/v%d" % (t, u, ver), [_col(t, optional=False, nulls="none", encoding="DELTA_BINARY_PACKED", delta_bits=20, page_version=ver, page_rows=[11, 30]),
                                                   _col("f64", name="x", page_version=ver)], rgs=(41, 20), pandas_units_={"c": u})
    # --- pandas metadata that does not list the time column at all (only the other column)
    for t in ("ts_ms", "ts_us", "ts_ns_l", "time_us", "date"):
        for ver in (1, 2):
            add("PO/%s/v%d" % (t, ver), [_col(t, optional=True, nulls="p20", page_version=ver, page_rows=[11, 30]), _col("f64", name="x", page_version=ver)],
                rgs=(41,), pandas_units_={"c": "omit"})
    # --- outside the supported set: must be refused
    for u in ("DELTA_LENGTH_BYTE_ARRAY", "DELTA_BYTE_ARRAY", "BYTE_STREAM_SPLIT", "LZO_CODEC"):
        for ver in (1, 2):
            add("U/%s/v%d" % (u, ver), [_col({"BYTE_STREAM_SPLIT": "f64"}.get(u, "utf8" if u != "LZO_CODEC" else "i64"), page_version=ver)], rgs=(40,), unsupported=u)
    # --- random recipes
    rng = np.random.default_rng([seed, 303])
    for i in range(500 if quick else 12000):
        cases.append({"id": "R/%d/%d" % (seed, i), "recipe": RC.random_recipe(rng)})
    return cases


def dtype_family_ok(tname, dt):
    import pandas as pd
    t = RC.TYPE_BY_NAME[tname]
    s = str(dt)
    want = {"bool": ("bool", "boolean"), "i32": ("int32", "Int32"), "i8": ("int8", "Int8"), "i16": ("int16", "Int16"), "i32c": ("int32", "Int32"),
            "u8": ("uint8", "UInt8"), "u16": ("uint16", "UInt16"), "u32": ("uint32", "UInt32"), "i64": ("int64", "Int64"), "i64c": ("int64", "Int64"),
            "u64": ("uint64", "UInt64"), "f32": ("float32",), "f64": ("float64",)}.get(tname)
    if tname in RC.DECIMALS:
        return s == "float64"        # the documented reading of DECIMAL
    if want:
        return s in want or (s == "float64" and tname not in ("f32",))     # float64 = legacy null representation (C17's subject)
    if tname in ("date", "ts_ms", "ts_us", "ts_ns_l", "ts_us_l", "ts_ms_l", "i96"):
        return s.startswith("datetime64")
    if tname in ("time_ms", "time_us"):
        return s.startswith("timedelta64")
    return s in ("object", "str") or s.startswith("|S") or s.startswith("S")


def make_unsupported(case):
    """Valid files that use an encoding / codec outside the supported set."""
    from vf.ref import encodings as E
    from vf.ref import writer as W
    spec, expected = RC.make_spec(case["recipe"])
    u = case["unsupported"]
    cs = spec["columns"][0]
    if u == "DELTA_LENGTH_BYTE_ARRAY":
        cs["encoding"] = "RAW"
        cs["raw_encoding_id"] = 6
        cs["raw_body"] = lambda vals: (E.delta_encode([len(v) for v in vals], 128, 4, 32) + b"".join(vals))
    elif u == "DELTA_BYTE_ARRAY":
        def body(vals):
            pre, suf = [], []
            prev = b""
            for v in vals:
                p = 0
                while p < min(len(prev), len(v)) and prev[p] == v[p]:
                    p += 1
                pre.append(p)
                suf.append(v[p:])
                prev = v
            return E.delta_encode(pre, 128, 4, 32) + E.delta_encode([len(s) for s in suf], 128, 4, 32) + b"".join(suf)
        cs["encoding"] = "RAW"
        cs["raw_encoding_id"] = 7
        cs["raw_body"] = body
    elif u == "BYTE_STREAM_SPLIT":
        def body(vals):
            raw = np.asarray(vals, dtype="<f8").view("uint8").reshape(-1, 8)
            return raw.T.tobytes()
        cs["encoding"] = "RAW"
        cs["raw_encoding_id"] = 9
        cs["raw_body"] = body
    data, fmd = W.build_file(spec)
    if u == "LZO_CODEC":
        # declare a codec the library does not ship (the pages are left uncompressed: a reader must refuse before looking at them)
        from vf.ref import compact as CP
        for rg in fmd["row_groups"]:
            for c in rg["columns"]:
                c["meta_data"]["codec"] = 3
        fb = CP.encode(fmd, "FileMetaData")
        (flen,) = struct.unpack("<I", data[-8:-4])
        data = data[:len(data) - 8 - flen] + fb + struct.pack("<I", len(fb)) + b"PAR1"
    return data, expected


def run_case(case):
    import fastparquet
    from vf.props import common as C
    from vf.ref import writer as W
    from vf.ref import reader as R
    counters = {}
    res = {"features": [], "nontrivial": False, "failures": [], "counters": counters}
    path = C.fresh_path(".parq")
    rec = case["recipe"]
    try:
        if case.get("unsupported"):
            data, expected = make_unsupported(case)
        else:
            spec, expected = RC.make_spec(rec)
            data, fmd = W.build_file(spec)
            info = R.read_file(data)
            if info.diags:
                raise RuntimeError("reference reader rejects the reference writer's file: %r" % info.diags[:2])
            dw = {}
            for code, where, val in info.notes:
                if code == "DELTA_WIDTH":
                    cname = where.split(".", 1)[1]
                    dw[cname] = max(dw.get(cname, 0), val)
            case = dict(case, _delta_width=dw)
        with open(path, "wb") as f:
            f.write(data)
        ctx = {"codec": rec["codec"], "row_groups": rec["row_groups"], "unsupported": case.get("unsupported")}
        try:
            pf = fastparquet.ParquetFile(path)
            if pf.selfmade:
                res["failures"].append({"kind": "foreign_file_flagged_selfmade", **ctx})
            got = pf.to_pandas()
            err = None
        except Exception as e:
            got, err = None, e
        if case.get("unsupported"):
            counters["unsupported_files"] = 1
            if err is None:
                # decoded: must at least be right
                wrong = False
                for c in rec["columns"]:
                    gv, _ = RC.got_cells(got[c["name"]])
                    if gv != expected[c["name"]]:
                        wrong = True
                if wrong:
                    res["failures"].append({"kind": "unsupported_input_decoded_to_wrong_values", **ctx})
                else:
                    counters["unsupported_decoded_correctly"] = 1
            else:
                counters["unsupported_refused"] = 1
            res["outcome"] = "ok"
            res["nontrivial"] = True
            res["features"] = ["unsupported", case["unsupported"], rec["columns"][0]["page_version"]]
            res["sample"] = {"unsupported": case["unsupported"], "refused_with": type(err).__name__ if err else None}
            return res
        if err is not None and isinstance(err, AssertionError) and "null delta-int not implemented" in str(err):
            # an explicit refusal: DELTA_BINARY_PACKED v2 pages that contain nulls are outside what the reader supports
            counters["refused_delta_with_nulls_v2"] = 1
            res["outcome"] = "rejected"
            return res
        if err is not None:
            sh = C.exc_shape(err)
            res["failures"].append({"kind": "read_raised", **ctx, **sh, "columns": [_cdesc(c, case) for c in rec["columns"]]})
            res["outcome"] = "ok"
            res["nontrivial"] = True
            res["features"] = [_feat(c, rec, case) for c in rec["columns"]]
            return res
        counters["files_read"] = 1
        if case.get("empty_dictionary"):
            counters["files_with_an_empty_dictionary_page"] = 1
        if rec.get("pandas_units"):
            counters["files_with_pandas_resolution_metadata"] = 1
        n = sum(rec["row_groups"])
        if len(got) != n:
            res["failures"].append({"kind": "row_count", "expected": n, "got": len(got), **ctx})
        for c in rec["columns"]:
            name = c["name"]
            cd = _cdesc(c, case)
            if name not in got.columns:
                res["failures"].append({"kind": "column_missing", "column": name, **ctx, **cd})
                continue
            gv, tag = RC.got_cells(got[name])
            ev = expected[name]
            if len(gv) == len(ev):
                bad = [i for i, (a, b) in enumerate(zip(ev, gv)) if a != b]
                if bad:
                    res["failures"].append({"kind": "cells_differ", "column": name, "n_bad": len(bad), "n": len(ev), "first_bad": bad[:4],
                                            "expected": [repr(ev[i])[:50] for i in bad[:3]], "got": [repr(gv[i])[:50] for i in bad[:3]],
                                            "all_bad_expected_null": all(ev[i] is None for i in bad), "all_bad_got_null": all(gv[i] is None for i in bad),
                                            "got_dtype": str(got[name].dtype), **ctx, **cd})
                counters["cells_compared"] = counters.get("cells_compared", 0) + len(ev)
            pu = (rec.get("pandas_units") or {}).get(name)
            if pu and pu != "omit" and ("[%s" % pu) not in str(got[name].dtype):
                res["failures"].append({"kind": "resolution_of_pandas_metadata_not_honoured", "column": name, "wanted_unit": pu, "got_dtype": str(got[name].dtype), **ctx, **cd})
            if not dtype_family_ok(c["type"], got[name].dtype):
                res["failures"].append({"kind": "dtype_family", "column": name, "got_dtype": str(got[name].dtype), **ctx, **cd})
            counters["columns_compared"] = counters.get("columns_compared", 0) + 1
            counters["enc:" + cd["enc"]] = counters.get("enc:" + cd["enc"], 0) + 1
            counters["v%s" % (c["page_version"] if not isinstance(c["page_version"], list) else "mixed")] = 1
        if case.get("then_append") and not res["failures"]:
            # fastparquet appends some of the rows it has just read; everything is read again through a fresh handle
            try:
                fastparquet.write(path, got.iloc[:17].reset_index(drop=True), append=True)
                again = fastparquet.ParquetFile(path).to_pandas()
            except Exception as e:
                res["failures"].append({"kind": "append_to_foreign_file_or_read_after_it_raised", **ctx, **C.exc_shape(e), "columns": [_cdesc(c, case) for c in rec["columns"]]})
            else:
                counters["foreign_files_appended_to"] = 1
                if len(again) != n + 17:
                    res["failures"].append({"kind": "row_count", "expected": n + 17, "got": len(again), "after_append": True, **ctx})
                else:
                    for c in rec["columns"]:
                        gv, _ = RC.got_cells(again[c["name"]])
                        ev = expected[c["name"]]
                        bad = [i for i, (a, b) in enumerate(zip(ev + ev[:17], gv)) if a != b]
                        if bad:
                            res["failures"].append({"kind": "cells_differ", "column": c["name"], "n_bad": len(bad), "n": len(gv), "first_bad": bad[:4], "after_append": True,
                                                    "expected": [repr((ev + ev[:17])[i])[:50] for i in bad[:3]], "got": [repr(gv[i])[:50] for i in bad[:3]], **ctx, **_cdesc(c, case)})
        res["outcome"] = "ok"
        res["nontrivial"] = n > 0
        res["features"] = [_feat(c, rec, case) for c in rec["columns"]]
        res["sample"] = {"recipe": {k: v for k, v in rec.items() if k != "columns"}, "columns": [_cdesc(c, case) for c in rec["columns"]]}
        return res
    finally:
        C.cleanup(path)


def _cdesc(c, case):
    enc = "DICT" if c.get("use_dict") else c.get("encoding", "PLAIN")
    return {"type": c["type"], "enc": enc, "page_version": c["page_version"], "optional": c.get("optional"), "nulls": c.get("nulls"),
            "distinct": c.get("distinct"), "dict_extra": c.get("dict_extra"), "index_width": case.get("width", c.get("min_index_width")),
            "delta_bits": c.get("delta_bits") if enc == "DELTA_BINARY_PACKED" else None,
            "max_miniblock_width": (case.get("_delta_width") or {}).get(c["name"]) if enc == "DELTA_BINARY_PACKED" else None, "delta_shape": c.get("delta_shape") if enc == "DELTA_BINARY_PACKED" else None,
            "def_plan": c.get("def_plan"), "idx_plan": c.get("idx_plan"), "fallback": c.get("dict_fallback_page"), "v2_compressed": c.get("v2_compressed"),
            "multi_page": c.get("page_rows") != [10 ** 9]}


def _feat(c, rec, case):
    d = _cdesc(c, case)
    wclass = None
    if d["enc"] == "DICT":
        w = d["index_width"] if d["index_width"] is not None else (max(1, (d["distinct"] or 1) + (d["dict_extra"] or 0)) - 1).bit_length()
        wclass = "w%d" % w
    if d["enc"] == "DELTA_BINARY_PACKED":
        wclass = "b%d" % (d["delta_bits"] or 0)
    return str((d["type"], d["enc"], wclass, str(d["page_version"]), d["def_plan"] if d["optional"] else "req", rec["codec"], d["nulls"], d["fallback"]))


def coverage_extra(agg):
    feats = set()
    for r in agg.results.values():
        for f in r.get("features") or []:
            feats.add(str(f))
    return {"distinct_nontrivial": len(feats)}


def required(tier):
    return {"files_read": 700, "columns_compared": 900, "enc:DICT": 200, "enc:PLAIN": 200, "enc:DELTA_BINARY_PACKED": 80, "enc:RLE": 10,
            "unsupported_files": 8, "files_with_pandas_resolution_metadata": 40, "files_with_an_empty_dictionary_page": 20, "foreign_files_appended_to": 15}
