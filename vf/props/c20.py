"""C20 - concurrent reads and derived handles give the same results as sequential use (DESIGN.md 5/C20)."""
import hashlib
import os
import pickle
import sys
import threading
import time

import numpy as np

ID = "C20"
LEVEL = "exploration"
FLAVOUR = "plain"
TECHNIQUE = "runtime monitor under schedule perturbation: per-thread operation logs of a shared handle compared with the sequential result of each operation; overlap matrix of operation kinds; sys.setswitchinterval(1e-6), randomised start barrier and sys.monitoring LINE-event yield injection inside fastparquet's schema/api code"
RULE = ("seeded runs: one dataset (single file or hive, 10-24 row groups) shared by 2-16 threads, each issuing a seeded sequence of read-only "
        "operations (to_pandas with columns / filters / categories, pf[i:j], iter_row_groups, head, statistics, pickle, count, dtypes) "
        "plus a part-file-writer run with a shared schema object; every result is compared with the precomputed sequential result; "
        "non-trivial = a run in which operations of different threads overlapped in time; distinct = distinct (threads, scheme, yield "
        "injection, overlapping operation-kind pairs) tuples")
ASSUMPTIONS = ["only sampled interleavings are observed (no claim about all schedules); the overlap matrix reports how hard each pair was hit",
               "yield injection happens only at Python line boundaries, where the interpreter may switch threads anyway"]
CASE_TIMEOUT = 600

OPS = ["full", "cols", "filter", "cats", "slice", "iter", "head", "stats", "pickle", "count", "pick", "pstats", "slice_stats", "copy"]
# (ParquetFile.dtypes is a plain attribute that every to_pandas(categories=...) call overwrites, sequentially too; it is not one
#  of the operations the property lists and is not used as a probe here)


def gen_cases(tier, seed):
    rng = np.random.default_rng([seed, 2020])
    cases = []
    n = 120 if tier == "quick" else 2500
    for i in range(n):
        cases.append({"id": "T/%d/%d" % (seed, i), "seed": int(rng.integers(0, 2 ** 31)), "threads": int([2, 4, 8, 8, 16][int(rng.integers(0, 5))]),
                      "ops_per_thread": int(rng.integers(4, 10)), "scheme": ["simple", "hive"][i % 2], "nrg": int(rng.integers(10, 25)),
                      "yield_p": [0.0, 0.02, 0.1][i % 3], "kind": "read"})
    # a handle nobody has used yet, every thread starting with a filtered read: first use of lazily built per-handle state
    for i in range(60 if tier == "quick" else 1500):
        cases.append({"id": "F/%d/%d" % (seed, i), "seed": int(rng.integers(0, 2 ** 31)), "threads": int([4, 8, 8, 16][int(rng.integers(0, 4))]),
                      "ops_per_thread": int(rng.integers(1, 3)), "scheme": ["simple", "hive"][i % 2], "nrg": int(rng.integers(30, 70)),
                      "yield_p": [0.0, 0.05, 0.2][i % 3], "kind": "read", "fresh": True})
    # one handle on an OPEN FILE OBJECT shared by the threads (pickling such a handle is not possible and is left out)
    for i in range(20 if tier == "quick" else 300):
        cases.append({"id": "FO/%d/%d" % (seed, i), "seed": int(rng.integers(0, 2 ** 31)), "threads": int([4, 8][i % 2]),
                      "ops_per_thread": int(rng.integers(3, 7)), "scheme": "simple", "nrg": int(rng.integers(10, 25)),
                      "yield_p": [0.0, 0.05][i % 2], "kind": "read", "filelike": True})
    # files of other writers with nested columns (their schema tree has links below the root too), shared between threads that read
    # through the handle and threads that derive handles from it
    for fi, fname in enumerate(["nested1.parquet", "map_array.parq", "nested.parq", "test-map-last-row-split.parquet"]):
        for i in range(3 if tier == "quick" else 30):
            cases.append({"id": "NS/%s/%d/%d" % (fname, seed, i), "seed": int(rng.integers(0, 2 ** 31)), "threads": int([4, 8, 8][i % 3]),
                          "ops_per_thread": int(rng.integers(6, 12)), "scheme": "simple", "nrg": 1, "yield_p": [0.05, 0.2, 0.0][i % 3], "kind": "read",
                          "nested_file": "test-data/" + fname})
    for i in range(30 if tier == "quick" else 300):
        cases.append({"id": "W/%d/%d" % (seed, i), "seed": int(rng.integers(0, 2 ** 31)), "threads": int([2, 4, 8][int(rng.integers(0, 3))]),
                      "yield_p": [0.0, 0.05][i % 2], "kind": "write", "parts": int(rng.integers(3, 9))})
    return cases


def _hash_df(df):
    import pandas as pd
    h = hashlib.sha1()
    h.update(str([str(c) for c in df.columns]).encode())
    h.update(str([str(d) for d in df.dtypes]).encode())
    h.update(str(len(df)).encode())
    for c in df.columns:
        s = df[c]
        if isinstance(s.dtype, pd.CategoricalDtype):
            s = s.astype(object)
        h.update(repr(s.tolist()).encode())
    h.update(repr(list(df.index[:5])).encode())
    return h.hexdigest()[:16]


def make_ops(rng, nrg, n):
    ops = []
    for _ in range(n):
        k = OPS[int(rng.integers(0, len(OPS)))]
        op = {"k": k}
        if k == "cols":
            cols = ["rid", "v0", "v1", "v2", "c", "ts"]
            op["columns"] = [cols[i] for i in rng.permutation(6)[:int(rng.integers(1, 5))]]
        elif k == "filter":
            op["lo"] = int(rng.integers(0, 200))
            op["f"] = ["rid", "v1", "ts", "v1in", "mix", "ts"][int(rng.integers(0, 6))]
        elif k in ("slice", "slice_stats"):
            a, b = sorted(int(x) for x in rng.integers(0, nrg + 1, 2))
            op["a"], op["b"] = a, b
        elif k == "pick":
            op["i"] = int(rng.integers(0, nrg))
        elif k == "head":
            op["n"] = int(rng.integers(0, 40))
        ops.append(op)
    return ops


def do_op(pf, op):
    import pandas as pd
    import fastparquet.api as A
    k = op["k"]
    if k == "full":
        return _hash_df(pf.to_pandas())
    if k == "cols":
        return _hash_df(pf.to_pandas(columns=list(op["columns"])))
    if k == "filter":
        f = op.get("f", "rid")
        lo = op["lo"]
        if f == "rid":
            flt = [("rid", ">=", lo)]
        elif f == "v1":       # text column with statistics (converted type UTF8)
            flt = [("v1", ">=", "s%d" % (lo % 20))]
        elif f == "ts":       # timestamp column (converted type)
            flt = [("ts", ">", pd.Timestamp("2021-01-01") + pd.Timedelta(lo, "h"))]
        elif f == "v1in":
            flt = [("v1", "in", ["s%d" % (lo % 20), "s%d" % ((lo + 7) % 20)])]
        else:
            flt = [[("ts", "<=", pd.Timestamp("2021-01-01") + pd.Timedelta(lo, "h")), ("v1", "!=", "s3")], [("rid", "<", lo // 2)]]
        if op.get("count"):
            return repr(int(pf.count(filters=flt)))
        return _hash_df(pf.to_pandas(filters=flt))
    if k == "cats":
        return _hash_df(pf.to_pandas(categories=[]))
    if k == "slice":
        return _hash_df(pf[op["a"]:op["b"]].to_pandas())
    if k == "pick":
        return _hash_df(pf[op["i"]].to_pandas())
    if k == "iter":
        return "|".join(_hash_df(d) for d in pf.iter_row_groups())
    if k == "head":
        return _hash_df(pf.head(op["n"]))
    if k == "stats":
        s = A.statistics(pf)
        return hashlib.sha1(repr(sorted((a, sorted((c, repr(v)) for c, v in b.items())) for a, b in s.items())).encode()).hexdigest()[:16]
    if k in ("pstats", "slice_stats"):
        # the statistics PROPERTY of the handle / of a handle sliced from it (kept per handle once computed)
        s = (pf if k == "pstats" else pf[op["a"]:op["b"]]).statistics
        return hashlib.sha1(repr(sorted((a, sorted((c, repr(v)) for c, v in b.items())) for a, b in s.items())).encode()).hexdigest()[:16]
    if k == "pickle":
        return _hash_df(pickle.loads(pickle.dumps(pf)).to_pandas())
    if k == "copy":
        import copy
        return _hash_df(copy.copy(pf).to_pandas())
    if k == "count":
        return repr((int(pf.count()), len(pf), pf.info["rows"]))
    if k == "dtypes":
        return repr([(c, str(t)) for c, t in pf.dtypes.items()]) + repr(pf.columns)
    raise ValueError(k)


class Yielder:
    """sys.monitoring LINE callback that yields the GIL with probability p inside selected fastparquet files."""
    TOOL = 3

    def __init__(self, p, seed):
        self.p = p
        self.rng = __import__("random").Random(seed)
        self.hits = 0
        self.on = False

    def start(self):
        if self.p <= 0:
            return
        mon = sys.monitoring
        try:
            mon.use_tool_id(self.TOOL, "vf-yield")
        except ValueError:
            return
        files = ("/schema.py", "/api.py", "/util.py", "/writer.py")

        def py_start(code, off):
            fn = code.co_filename
            if "fastparquet" in fn and fn.endswith(files):
                mon.set_local_events(self.TOOL, code, mon.events.LINE)
            return mon.DISABLE

        def line(code, ln):
            if self.rng.random() < self.p:
                self.hits += 1
                time.sleep(0)

        mon.register_callback(self.TOOL, mon.events.PY_START, py_start)
        mon.register_callback(self.TOOL, mon.events.LINE, line)
        mon.set_events(self.TOOL, mon.events.PY_START)
        mon.restart_events()
        self.on = True

    def stop(self):
        if self.on:
            mon = sys.monitoring
            mon.set_events(self.TOOL, 0)
            mon.free_tool_id(self.TOOL)
            self.on = False


def run_case(case):
    import pandas as pd
    import fastparquet
    from vf.props import common as C
    counters = {}
    res = {"features": [], "nontrivial": False, "failures": [], "counters": counters}
    rng = np.random.default_rng([case["seed"], 20])
    old_si = sys.getswitchinterval()
    path = None
    y = Yielder(case.get("yield_p", 0.0), case["seed"])
    try:
        if case["kind"] == "write":
            return run_write_case(case, rng, res, counters, y)
        if case.get("nested_file"):
            return run_nested_case(case, rng, res, counters, y)
        n = case["nrg"] * 10
        df = pd.DataFrame({"rid": np.arange(n, dtype="int64"), "v0": rng.integers(-50, 50, n).astype("int64"),
                           "v1": np.array(["s%d" % x for x in rng.integers(0, 20, n)], dtype=object), "v2": rng.standard_normal(n),
                           "c": pd.Categorical.from_codes(rng.integers(0, 3, n), categories=["x", "y", "z"]),
                           "ts": pd.Timestamp("2021-01-01") + pd.to_timedelta(np.arange(n), "h")})
        scheme = case["scheme"]
        path = C.fresh_path(".parq" if scheme == "simple" else "")
        # (every other dataset leaves the bounds of its text columns out, as the default does: statistics then carry "no bound" entries)
        fastparquet.write(path, df, row_group_offsets=10, file_scheme=scheme, stats=True if case["seed"] % 2 else "auto")
        fobj = None
        if case.get("filelike") and scheme == "simple":
            fobj = open(path, "rb")
            pf = fastparquet.ParquetFile(fobj)        # a handle on an open file object, shared by all threads
            counters["shared_file_object_runs"] = 1
        else:
            pf = fastparquet.ParquetFile(path)
        nrg = len(pf.row_groups)
        T = case["threads"]
        plans = [make_ops(rng, nrg, case["ops_per_thread"]) for _ in range(T)]
        if case.get("filelike"):
            plans = [[op for op in plan if op["k"] not in ("pickle",)] or [{"k": "full"}] for plan in plans]
        fresh = bool(case.get("fresh"))
        if fresh:
            for ti, plan in enumerate(plans):
                plan.insert(0, {"k": "filter", "lo": int(rng.integers(0, n)), "f": ["ts", "v1", "mix", "v1in", "ts"][ti % 5], "count": bool(ti % 3 == 2)})
        # sequential baseline on a separate, identical handle
        base_pf = fastparquet.ParquetFile(path)
        baseline = {}
        for plan in plans:
            for op in plan:
                key = repr(sorted(op.items()))
                if key not in baseline:
                    # "the result it would obtain alone": statistics operations on a handle of their own (they keep state on the handle)
                    baseline[key] = do_op(fastparquet.ParquetFile(path) if op["k"] in ("pstats", "slice_stats", "stats") else base_pf, op)
        parent_before = do_op(base_pf if fresh else pf, {"k": "full"})    # a fresh handle is not touched before the threads start
        logs = [[] for _ in range(T)]
        barrier = threading.Barrier(T)
        delays = [0.0] * T if fresh else [float(x) for x in rng.random(T) * 0.002]
        if fresh:
            counters["fresh_handle_runs"] = 1

        def worker(ti):
            log = logs[ti]
            try:
                barrier.wait(timeout=60)
            except threading.BrokenBarrierError:
                pass
            time.sleep(delays[ti])
            for op in plans[ti]:
                t0 = time.monotonic_ns()
                try:
                    out = do_op(pf, op)
                    err = None
                except BaseException as e:
                    out = None
                    err = C.exc_shape(e)
                log.append((op, t0, time.monotonic_ns(), out, err))

        sys.setswitchinterval(1e-6)
        y.start()
        threads = [threading.Thread(target=worker, args=(i,), daemon=True) for i in range(T)]
        for t in threads:
            t.start()
        for t in threads:
            t.join(timeout=300)
        y.stop()
        sys.setswitchinterval(old_si)
        if any(t.is_alive() for t in threads):
            res["failures"].append({"kind": "thread_did_not_finish", "threads": T})
        # ---- offline check of the logs
        allops = [(ti, *e) for ti, log in enumerate(logs) for e in log]
        overlap_pairs = set()
        n_overlap = 0
        for (ti, op, t0, t1, out, err) in allops:
            inflight = sorted({o2["k"] for (tj, o2, s0, s1, _, _) in allops if tj != ti and s0 < t1 and t0 < s1})
            if inflight:
                n_overlap += 1
                for k2 in inflight:
                    overlap_pairs.add((op["k"], k2))
            key = repr(sorted(op.items()))
            if err is not None:
                res["failures"].append({"kind": "operation_failed_under_concurrency", "op": op, "inflight": inflight, "threads": T,
                                        "scheme": scheme, "yield_p": case.get("yield_p"), **err})
            elif out != baseline[key]:
                res["failures"].append({"kind": "result_differs_from_sequential", "op": op, "inflight": inflight, "threads": T,
                                        "scheme": scheme, "yield_p": case.get("yield_p")})
        parent_after = do_op(pf, {"k": "full"})
        if parent_after != parent_before or len(pf.row_groups) != nrg:
            res["failures"].append({"kind": "parent_handle_disturbed", "threads": T, "scheme": scheme})
        counters["ops_checked"] = len(allops)
        counters["statistics_property_ops"] = sum(1 for e in allops if e[1]["k"] in ("pstats", "slice_stats"))
        counters["ops_overlapping"] = n_overlap
        counters["yield_injections"] = y.hits
        counters["runs"] = 1
        for a, b in overlap_pairs:
            counters["ov:%s|%s" % (a, b)] = 1
        slicing = {"slice", "pick", "iter", "head"}
        counters["ov_slice_vs_read"] = sum(1 for a, b in overlap_pairs if a in slicing and b not in slicing)
        res["outcome"] = "ok"
        res["nontrivial"] = n_overlap > 0
        res["features"] = [T, scheme, case.get("yield_p", 0) > 0, sorted("%s|%s" % p for p in overlap_pairs)]
        res["sets"] = {"overlap_pairs": sorted("%s|%s" % p for p in overlap_pairs)}
        res["sample"] = {"threads": T, "scheme": scheme, "row_groups": nrg, "ops": len(allops), "overlapping_ops": n_overlap,
                         "yield_injections": y.hits, "first_thread_plan": plans[0][:4]}
        return res
    finally:
        y.stop()
        sys.setswitchinterval(old_si)
        C.cleanup(path)


def run_nested_case(case, rng, res, counters, y):
    """Threads reading through one handle on a file with nested columns while others derive handles from it (slice, pick, iteration,
    head, copy): every result equals what a handle of its own gives."""
    import os
    import fastparquet
    from vf import REPO
    from vf.props import common as C
    path = os.path.join(REPO, case["nested_file"])
    old_si = sys.getswitchinterval()
    try:
        pf = fastparquet.ParquetFile(path)
        nrg = len(pf.row_groups)
        kinds = ["full", "slice", "iter", "head", "pick", "copy", "full", "slice"]
        T = case["threads"]
        plans = []
        for ti in range(T):
            plan = []
            for _ in range(case["ops_per_thread"]):
                k = kinds[int(rng.integers(0, len(kinds)))]
                op = {"k": k}
                if k == "slice":
                    op["a"], op["b"] = 0, nrg
                elif k == "pick":
                    op["i"] = int(rng.integers(0, nrg))
                elif k == "head":
                    op["n"] = int(rng.integers(1, 5))
                plan.append(op)
            plans.append(plan)
        baseline = {}
        for plan in plans:
            for op in plan:
                key = repr(sorted(op.items()))
                if key not in baseline:
                    baseline[key] = do_op(fastparquet.ParquetFile(path), op)
        logs = [[] for _ in range(T)]
        barrier = threading.Barrier(T)

        def worker(ti):
            try:
                barrier.wait(timeout=60)
            except threading.BrokenBarrierError:
                pass
            for op in plans[ti]:
                t0 = time.monotonic_ns()
                try:
                    out, err = do_op(pf, op), None
                except BaseException as e:
                    out, err = None, C.exc_shape(e)
                logs[ti].append((op, t0, time.monotonic_ns(), out, err))

        sys.setswitchinterval(1e-6)
        y.start()
        threads = [threading.Thread(target=worker, args=(i,), daemon=True) for i in range(T)]
        for t in threads:
            t.start()
        for t in threads:
            t.join(timeout=300)
        y.stop()
        sys.setswitchinterval(old_si)
        n_overlap = 0
        allops = [(ti, *e) for ti, log in enumerate(logs) for e in log]
        for (ti, op, t0, t1, out, err) in allops:
            inflight = sorted({o2["k"] for (tj, o2, s0, s1, _, _) in allops if tj != ti and s0 < t1 and t0 < s1})
            n_overlap += bool(inflight)
            if err is not None:
                res["failures"].append({"kind": "operation_failed_under_concurrency", "op": op, "inflight": inflight, "threads": T, "file": case["nested_file"], **err})
            elif out != baseline[repr(sorted(op.items()))]:
                res["failures"].append({"kind": "result_differs_from_sequential", "op": op, "inflight": inflight, "threads": T, "file": case["nested_file"]})
        counters["nested_file_runs"] = 1
        counters["ops_checked"] = len(allops)
        counters["ops_overlapping"] = n_overlap
        counters["yield_injections"] = y.hits
        res["outcome"] = "ok"
        res["nontrivial"] = n_overlap > 0
        res["features"] = [T, "nested", case["nested_file"]]
        return res
    finally:
        sys.setswitchinterval(old_si)


def run_write_case(case, rng, res, counters, y):
    """Threads call the part-file writer with a shared schema / fmd object: bytes must equal the sequential bytes."""
    import pandas as pd
    import fastparquet
    from fastparquet import writer as W
    from vf.props import common as C
    d = C.fresh_path("-w")
    os.makedirs(d)
    try:
        parts = []
        for i in range(case["parts"]):
            n = int(rng.integers(5, 60))
            parts.append(pd.DataFrame({"rid": np.arange(i * 1000, i * 1000 + n, dtype="int64"), "v": rng.standard_normal(n),
                                       "s": np.array(["q%d" % x for x in rng.integers(0, 9, n)], dtype=object),
                                       "c": pd.Categorical.from_codes(rng.integers(0, 2, n), categories=["a", "b"])}))
            # (a second categorical whose number of labels differs from part to part - the shared metadata, made from the first part,
            #  declares 2 - as with dask partitions or an iterable of frames)
            nc = [2, 7, 300, 2, 40][i % 5]
            parts[-1]["k"] = pd.Categorical.from_codes(rng.integers(0, nc, n), categories=["L%03d" % x for x in range(nc)])
        fmd = W.make_metadata(parts[0], has_nulls=True, object_encoding="utf8")
        fmd_bytes = bytes(fmd.to_bytes())
        seq = []
        for i, p in enumerate(parts):
            # the reference: every part written on its own against metadata nobody else has touched
            fmd_i = W.make_metadata(parts[0], has_nulls=True, object_encoding="utf8")
            fn = os.path.join(d, "seq.%d.parquet" % i)
            W.make_part_file(open(fn, "wb"), p, fmd_i.schema, fmd=fmd_i)
            seq.append(open(fn, "rb").read())
        T = case["threads"]
        errs = []
        barrier = threading.Barrier(T)

        def worker(ti):
            try:
                barrier.wait(timeout=60)
            except threading.BrokenBarrierError:
                pass
            for i in range(ti, len(parts), T):
                fn = os.path.join(d, "par.%d.parquet" % i)
                try:
                    W.make_part_file(open(fn, "wb"), parts[i], fmd.schema, fmd=fmd)
                except BaseException as e:
                    errs.append((i, C.exc_shape(e)))

        old_si = sys.getswitchinterval()
        sys.setswitchinterval(1e-6)
        y.start()
        ths = [threading.Thread(target=worker, args=(i,), daemon=True) for i in range(T)]
        for t in ths:
            t.start()
        for t in ths:
            t.join(timeout=300)
        y.stop()
        sys.setswitchinterval(old_si)
        for i, e in errs:
            res["failures"].append({"kind": "part_writer_failed_under_concurrency", "part": i, "threads": T, **e})
        for i in range(len(parts)):
            fn = os.path.join(d, "par.%d.parquet" % i)
            if os.path.exists(fn):
                b = open(fn, "rb").read()
                if b != seq[i]:
                    res["failures"].append({"kind": "part_file_bytes_differ_from_sequential", "part": i, "threads": T, "len": [len(b), len(seq[i])]})
                counters["part_files_compared"] = counters.get("part_files_compared", 0) + 1
        if bytes(fmd.to_bytes()) != fmd_bytes:
            res["failures"].append({"kind": "shared_metadata_object_mutated_by_part_writers", "threads": T})
        counters["write_runs"] = 1
        counters["yield_injections"] = y.hits
        res["outcome"] = "ok"
        res["nontrivial"] = True
        res["features"] = ["write", T, case.get("yield_p", 0) > 0, case["parts"]]
        res["sample"] = {"kind": "write", "threads": T, "parts": case["parts"]}
        return res
    finally:
        C.cleanup(d)


def required(tier):
    return {"runs": 60, "ops_overlapping": 1000, "ov_slice_vs_read": 100, "part_files_compared": 30, "yield_injections": 1000, "fresh_handle_runs": 30, "statistics_property_ops": 300, "shared_file_object_runs": 15, "nested_file_runs": 8}
