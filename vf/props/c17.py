"""C17 - metadata-only answers match the data actually read (DESIGN.md 5/C17)."""
import glob
import os

import numpy as np

ID = "C17"
LEVEL = "exploration"
FLAVOUR = "plain"
TECHNIQUE = "runtime monitor: metamorphic oracle (what the handle predicts from metadata vs what the read with the same options returns)"
RULE = ("files written from generated frames (C01 generator), partitioned datasets (C08 generator), third-party files of "
        "/repo/test-data and spec-level foreign files (refpq writer, when available) x option sets (columns, categories "
        "list/dict/None, index, pandas_nulls True/False, dtypes override); non-trivial = prediction compared with a read that "
        "returned >=1 column; distinct = distinct (source, kinds, option set) tuples")
ASSUMPTIONS = ["the actual read is the oracle", "a prediction of 'category' matches any CategoricalDtype"]
CASE_TIMEOUT = 120

from vf.gen import datasets as D
from vf.gen import frames as F
from vf.props import c01
from vf import REPO

FOREIGN_SKIP = {"no_columns.parquet"}


def gen_cases(tier, seed):
    rng = np.random.default_rng([seed, 1717])
    cases = []
    n = 250 if tier == "quick" else 5000
    for i in range(n):
        if i % 2 == 0:
            c = c01.random_case(rng, "F/%d/%d" % (seed, i))
            c["src"] = "c01"
        else:
            c = D.random_dataset(rng, "D/%d/%d" % (seed, i), pkinds=D.ALL_PKINDS if i % 4 == 1 else D.BENIGN_PKINDS, max_rows=150)
            c["src"] = "c08"
        c["oseed"] = int(rng.integers(0, 2 ** 31))
        cases.append(c)
    files = sorted(glob.glob(os.path.join(REPO, "test-data", "*.parq*")))
    for p in files:
        cases.append({"id": "T/" + os.path.basename(p), "src": "test-data", "path": p, "oseed": 5})
    for d in ("split", "multi_rgs_pyarrow", "dir_metadata", "airlines_parquet"):
        p = os.path.join(REPO, "test-data", d)
        if os.path.isdir(p):
            cases.append({"id": "T/" + d, "src": "test-data", "path": p, "oseed": 6})
    try:
        from vf.gen import recipes
        for i in range(60 if tier == "quick" else 1500):
            cases.append({"id": "X/%d/%d" % (seed, i), "src": "refpq", "recipe": recipes.random_recipe(rng, flat=True), "oseed": int(rng.integers(0, 2 ** 31))})
        # files of another writer in which LIST / MAP columns (several chunks each) come before flat ones
        for i in range(30 if tier == "quick" else 600):
            rec = recipes.random_recipe(rng, flat=True)
            nested = [{"seed": int(rng.integers(0, 2 ** 31)), "kind": ["LIST", "MAP"][int(rng.integers(0, 2))], "prim": ["i32", "i64", "utf8"][int(rng.integers(0, 3))],
                       "key_prim": "utf8", "top_optional": bool(rng.integers(0, 2)), "elem_optional": bool(rng.integers(0, 2)), "max_len": 3,
                       "p_null_row": 0.3, "p_null_elem": 0.3, "p_empty": 0.2, "page_values": [10 ** 9], "page_version": 1, "use_dict": False, "long_rows": False}
                      for _ in range(int(rng.integers(1, 3)))]
            cases.append({"id": "XN/%d/%d" % (seed, i), "src": "refpq", "recipe": rec, "nested_first": nested, "oseed": int(rng.integers(0, 2 ** 31))})
    except ImportError:
        pass
    # a dataset of another writer (created_by says so) whose pandas metadata calls a column categorical, dictionary-encoded in some row
    # groups and PLAIN in others (what parquet-cpp writes once a dictionary has grown too large)
    for i, plain_in in enumerate([(1,), (0,), (2,), (1, 2), ()]):
        cases.append({"id": "FC/%d" % i, "src": "fc", "plain_in": list(plain_in), "oseed": 40 + i})
        cases.append({"id": "FC/%d/no_created_by" % i, "src": "fc", "plain_in": list(plain_in), "oseed": 50 + i, "no_created_by": True})    # (the field is optional)
    # files opened as one dataset that store the same columns in another order; the missing values are in the later file only
    for i in range(6):
        cases.append({"id": "CO/%d" % i, "src": "co", "nulls_in": ["x", "y", "z"][i % 3], "second_order": [["y", "x", "z"], ["z", "y", "x"], ["y", "z", "x"]][i // 3 if i < 6 else 0][:],
                      "three_files": bool(i % 2), "oseed": 70 + i})
    return cases


def _plain_int_or_bool(d):
    """Is d a numpy integer / unsigned / boolean dtype (which has no representation for a missing value)?"""
    try:
        return isinstance(d, np.dtype) and d.kind in "iub" or (isinstance(d, (str, type)) and np.dtype(d).kind in "iub")
    except TypeError:
        return False


def _dtype_matches(pred, actual):
    import pandas as pd
    if str(pred) == "category":
        return isinstance(actual, pd.CategoricalDtype)
    try:
        p = pd.api.types.pandas_dtype(pred)
    except Exception:
        return str(pred) == str(actual)
    if p == actual:
        return True
    # text columns: object prediction, pandas 3 may hand back either object or str
    if p == object and (actual == object or isinstance(actual, pd.StringDtype)):
        return True
    return False


def run_case(case):
    import pandas as pd
    import fastparquet
    from vf.props import common as C
    counters = {}
    res = {"features": [], "nontrivial": False, "failures": [], "counters": counters}
    path = None
    cleanup = False
    recipe_nulls = None
    try:
        if case["src"] in ("c01", "c08"):
            df = D.build_dataset_frame(case) if case["src"] == "c08" else F.build_frame(case["frame"])
            scheme = case["opts"].get("file_scheme", "simple")
            path = C.fresh_path(".parq" if scheme == "simple" else "")
            cleanup = True
            with C.writer_globals(case.get("page_size"), case.get("dpv")):
                try:
                    fastparquet.write(path, df, **C.write_kwargs(case["opts"]))
                except Exception as e:
                    res["outcome"] = "rejected"
                    counters["write_rejected"] = 1
                    return res
        elif case["src"] == "co":
            import os
            path0 = C.fresh_path("")
            os.makedirs(path0)
            cleanup = True
            oi = lambda vals: np.array(vals, dtype=object)
            frames_ = [pd.DataFrame({"x": oi([1, 2, 3]), "y": oi([4, 5, 6]), "z": oi([True, False, True])})]
            second = {"x": oi([7, 8, 9]), "y": oi([10, 11, 12]), "z": oi([False, False, True])}
            second[case["nulls_in"]][1] = None
            frames_.append(pd.DataFrame({c_: second[c_] for c_ in case["second_order"]}))
            if case["three_files"]:
                frames_.append(pd.DataFrame({c_: frames_[0][c_] for c_ in case["second_order"][::-1]}))
            files_ = []
            for j_, fr_ in enumerate(frames_):
                files_.append(os.path.join(path0, "f%d.parquet" % j_))
                fastparquet.write(files_[-1], fr_, object_encoding={"x": "int", "y": "int", "z": "bool"}, write_index=False)
            path = files_
            counters["file_sets_with_columns_in_another_order"] = 1
        elif case["src"] == "fc":
            import os
            from fastparquet import writer as FW_
            path = C.fresh_path("")
            os.makedirs(path)
            cleanup = True
            parts = []
            for j in range(3):
                labels = ["a", "b", "c"]
                vals = [labels[(j + x) % 3] for x in range(6)]
                k_ = np.array(vals, dtype=object) if j in case["plain_in"] else pd.Categorical(vals, categories=labels)
                pj = os.path.join(path, "part.%d.parquet" % j)
                fastparquet.write(pj, pd.DataFrame({"k": k_, "v": np.arange(6 * j, 6 * j + 6, dtype="int64")}), object_encoding={"k": "utf8", "v": "infer"}, stats=False)
                parts.append(pj)
            order = [p_ for j_, p_ in enumerate(parts) if j_ not in case["plain_in"]] + [p_ for j_, p_ in enumerate(parts) if j_ in case["plain_in"]]
            if 0 in case["plain_in"]:
                order = parts       # the PLAIN one first: its pandas metadata does not call the column categorical
            pfm = FW_.merge(order, verify_schema=False)
            pfm.fmd.created_by = None if case.get("no_created_by") else b"parquet-cpp-arrow version 14.0.2"
            pfm._write_common_metadata()
            counters["foreign_datasets_with_partly_dictionary_encoded_categoricals"] = 1
        elif case["src"] == "refpq":
            from vf.gen import recipes as RC
            path = C.fresh_path(".parq")
            cleanup = True
            if case.get("nested_first"):
                from vf.props import c15
                from vf.ref import writer as W_
                spec, _exp = RC.make_spec(case["recipe"])
                recipe_nulls = {k_: any(v_ is None for v_ in cells_) for k_, cells_ in _exp.items()}
                ncols = []
                for j_, sub in enumerate(case["nested_first"]):
                    sp1, _rows = c15.make(dict(sub, row_groups=case["recipe"]["row_groups"], codec=case["recipe"]["codec"]))
                    sp1["columns"][0]["name"] = "n%d" % j_
                    sp1["columns"][0]["write_stats"] = bool((case["oseed"] + j_) % 3)     # mostly with a Statistics struct (which says nothing about nulls)
                    ncols.append(sp1["columns"][0])
                spec["columns"] = ncols + spec["columns"]
                data_, _fmd = W_.build_file(spec)
                with open(path, "wb") as f_:
                    f_.write(data_)
                counters["files_with_nested_columns_before_flat_ones"] = 1
            else:
                _exp, _ = RC.write_recipe(case["recipe"], path)
                recipe_nulls = {k_: any(v_ is None for v_ in cells_) for k_, cells_ in _exp.items()}
        else:
            path = case["path"]
        rng = np.random.default_rng([case["oseed"], 3])
        n_cmp = 0
        feats = set()
        for pandas_nulls in (True, False):
            try:
                pf = fastparquet.ParquetFile(path, pandas_nulls=pandas_nulls)
            except Exception as e:
                if case["src"] in ("fc", "refpq"):
                    # a dataset built here to be valid: no handle, no answers at all
                    res["failures"].append({"kind": "valid_dataset_cannot_be_opened", "src": case["src"], "pandas_nulls": pandas_nulls, **C.exc_shape(e)})
                    res["outcome"] = "ok"
                    res["nontrivial"] = True
                    return res
                res["outcome"] = "skip"
                counters["open_failed"] = 1
                res["reject"] = C.exc_shape(e)
                return res
            if recipe_nulls is not None:
                # the recipe knows which columns hold NULLs: a plain integer / boolean prediction for one of them cannot be what a read gives
                for c_, has_ in recipe_nulls.items():
                    if has_ and c_ in pf.dtypes and _plain_int_or_bool(pf.dtypes[c_]):
                        res["failures"].append({"kind": "predicted_dtype_cannot_hold_the_missing_values_of_the_column", "column": c_, "predicted": str(pf.dtypes[c_]),
                                                "default_read_dtype": None, "declared_required": False, "opts": {}, "pandas_nulls": pandas_nulls, "src": case["src"],
                                                "known_from": "recipe"})
                counters["recipe_null_columns_checked"] = counters.get("recipe_null_columns_checked", 0) + sum(1 for v_ in recipe_nulls.values() if v_)
            allcols = list(pf.columns) + list(pf.cats)
            filecols = list(pf.columns)
            catcols = list(pf.categories) if isinstance(pf.categories, (dict, list)) else []
            optsets = [{}]
            if filecols:
                k = int(rng.integers(1, len(allcols) + 1))
                optsets.append({"columns": [allcols[i] for i in rng.permutation(len(allcols))[:k]]})
                optsets.append({"index": False})
                optsets.append({"index": filecols[int(rng.integers(0, len(filecols)))]})
            if catcols:
                optsets.append({"categories": []})
                optsets.append({"categories": [catcols[0]]})
                optsets.append({"categories": {catcols[0]: int(pf.categories[catcols[0]]) if isinstance(pf.categories, dict) else 100}})
            if not catcols and not pf.has_pandas_metadata and pf.row_groups:
                # foreign file: columns dictionary-encoded in every row group can be asked for as categories
                dcols = None
                for rg in pf.row_groups:
                    here = {".".join(c.meta_data.path_in_schema) for c in rg.columns
                            if set(c.meta_data.encodings or []) & {2, 8} and len(c.meta_data.path_in_schema) == 1}
                    dcols = here if dcols is None else dcols & here
                dcols = sorted(c for c in (dcols or ()) if c in filecols and str(pf.dtypes.get(c)) == "object")
                if dcols:
                    optsets.append({"categories": [dcols[0]]})
                    optsets.append({"categories": {dcols[0]: 64}})
            if filecols:
                # a read with a caller-supplied dtypes mapping for a subset of the columns (here: the handle's own answer for them)
                k = int(rng.integers(1, len(filecols) + 1))
                sub = [filecols[i] for i in rng.permutation(len(filecols))[:k]]
                optsets.append({"columns": sub, "index": False, "dtypes": {c: pf.dtypes[c] for c in sub}})
            # the default read again at the end, on the same handle: answers must not depend on what was asked before
            optsets.append({"_repeat_default": True})
            first_default = {}
            default_frame = None
            for o in optsets:
                repeat = bool(o.get("_repeat_default"))
                o = {k_: v_ for k_, v_ in o.items() if k_ != "_repeat_default"}
                ix = o.get("index")
                if isinstance(ix, str):
                    dts = str(pf.dtypes.get(ix))
                    if dts[:3] in ("Int", "UIn") or dts == "boolean":
                        continue  # masked column as index: known finding of C06, not a prediction question
                if "dtypes" in o:
                    counters["reads_with_dtypes_mapping"] = counters.get("reads_with_dtypes_mapping", 0) + 1
                okey = (case["src"], pandas_nulls, tuple(sorted(o)))
                got_first = None
                if repeat:
                    # read first: asking the handle for a prediction could itself refresh its state
                    try:
                        got_first = pf.to_pandas()
                    except Exception as e:
                        got_first = e
                try:
                    pred_dt = dict(pf._dtypes(o.get("categories"))) if "categories" in o else dict(pf.dtypes)
                    if "dtypes" in o:
                        pred_dt = dict(o["dtypes"])      # the caller's mapping is the prediction for this read
                    pred_cols = list(pf.columns)
                    pred_cats = list(pf.cats)
                    pred_index = pf._get_index(o.get("index"))
                    pred_count = int(pf.count())
                    pred_rg = [rg.num_rows for rg in pf.row_groups]
                    pred_info = dict(pf.info)
                except Exception as e:
                    res["failures"].append({"kind": "prediction_raised", "opts": o, **C.exc_shape(e)})
                    continue
                if default_frame is not None and "dtypes" not in o:
                    # a prediction the data cannot have: a plain (non-nullable) integer / boolean dtype for a column that holds missing
                    # values (decided against the default read of the same handle; the read with these options need not even succeed)
                    for c_, d_ in pred_dt.items():
                        if c_ in default_frame.columns and _plain_int_or_bool(d_) and bool(default_frame[c_].isna().any()):
                            res["failures"].append({"kind": "predicted_dtype_cannot_hold_the_missing_values_of_the_column", "column": str(c_), "predicted": str(d_),
                                                    "default_read_dtype": str(default_frame[c_].dtype), "opts": {k_: v_ for k_, v_ in o.items()},
                                                    "declared_required": next((e_.repetition_type == 0 for e_ in pf.schema.schema_elements if e_.name == c_), None),
                                                    "pandas_nulls": pandas_nulls, "src": case["src"]})
                    counters["predictions_checked_against_missing_values"] = counters.get("predictions_checked_against_missing_values", 0) + 1
                try:
                    if isinstance(got_first, Exception):
                        raise got_first
                    got = got_first if got_first is not None else pf.to_pandas(**o)
                except Exception as e:
                    counters["read_raised"] = counters.get("read_raised", 0) + 1
                    counters["read_raised:" + type(e).__name__] = counters.get("read_raised:" + type(e).__name__, 0) + 1
                    if case["src"] in ("fc", "co") and not o:
                        # a dataset built here to be valid, read with default options: the handle's answers (its categories among them)
                        # describe a read that does not exist
                        res["failures"].append({"kind": "default_read_of_a_valid_dataset_raised", "src": case["src"], "pandas_nulls": pandas_nulls,
                                                "categories_answer": sorted(map(str, pf.categories)) if isinstance(pf.categories, (dict, list)) else str(pf.categories), **C.exc_shape(e)})
                    continue   # (otherwise) a failing read is C01/C03/C06's business
                counters["optionsets_compared"] = counters.get("optionsets_compared", 0) + 1
                ctx = {"opts": {k_: ({c_: str(d_) for c_, d_ in v_.items()} if k_ == "dtypes" else v_) for k_, v_ in o.items()},
                       "pandas_nulls": pandas_nulls, "src": case["src"], "repeat": repeat}
                if not o:
                    sig = ([str(c) for c in got.columns], [str(d) for d in got.dtypes], {k_: str(v_) for k_, v_ in pred_dt.items()})
                    if not repeat:
                        first_default = sig
                        default_frame = got.reset_index() if [n_ for n_ in got.index.names if n_ is not None] else got
                    else:
                        counters["default_reads_repeated"] = counters.get("default_reads_repeated", 0) + 1
                        if first_default and sig != first_default:
                            res["failures"].append({"kind": "default_read_depends_on_earlier_calls", "first": str(first_default)[:300],
                                                    "again": str(sig)[:300], **ctx})
                # shape
                if len(got) != pred_count or sum(pred_rg) != pred_count or pred_info["rows"] != pred_count or pred_info["row_groups"] != len(pred_rg):
                    res["failures"].append({"kind": "count_prediction", "predicted": [pred_count, sum(pred_rg), pred_info["rows"]], "got": len(got), **ctx})
                # names / order
                want_cols = o.get("columns")
                idx = pred_index or []
                if want_cols is None:
                    exp_cols = [c for c in pred_cols + pred_cats if c not in idx]
                else:
                    exp_cols = [c for c in want_cols if c not in idx]
                if [str(c) for c in got.columns] != [str(c) for c in exp_cols]:
                    res["failures"].append({"kind": "columns_prediction", "predicted": exp_cols, "got": [str(c) for c in got.columns], **ctx})
                if pred_info["columns"] != pred_cols or pred_info["partitions"] != pred_cats:
                    res["failures"].append({"kind": "info_prediction", "info": {k: pred_info[k] for k in ("columns", "partitions")}, **ctx})
                # index names
                got_idx = [n for n in got.index.names if n is not None]
                import re
                pred_named = [i for i in idx if not re.match(r"__index_level_\d+__$", str(i))]   # arrow's spelling of "unnamed"
                if [str(i) for i in pred_named] != [str(i) for i in got_idx] or got.index.nlevels != max(1, len(idx)):
                    if not (len(idx) == 0 and got_idx and isinstance(got.index, pd.RangeIndex)):
                        res["failures"].append({"kind": "index_prediction", "predicted": idx, "got": got_idx, **ctx})
                # dtypes
                for c in got.columns:
                    if str(c) not in pred_dt:
                        res["failures"].append({"kind": "dtype_prediction", "column": str(c), "predicted": None, "got": str(got.dtypes[c]), **ctx})
                        continue
                    if not _dtype_matches(pred_dt[str(c)], got.dtypes[c]):
                        res["failures"].append({"kind": "dtype_prediction", "column": str(c), "predicted": str(pred_dt[str(c)]),
                                                "got": str(got.dtypes[c]), "n_rows": len(got), **ctx})
                    counters["dtype_predictions"] = counters.get("dtype_predictions", 0) + 1
                # the same prediction holds row group by row group (iter_row_groups goes through derived handles)
                if not o and not repeat and len(pred_rg) > 1:
                    try:
                        parts = list(pf.iter_row_groups())
                        if [len(p_) for p_ in parts] != [n_ for n_ in pred_rg if n_]:
                            res["failures"].append({"kind": "row_group_rows_prediction", "predicted": pred_rg, "got": [len(p_) for p_ in parts], **ctx})
                        for pi, part in enumerate(parts):
                            for c in part.columns:
                                # (a dataset whose row groups encode a column differently - src "fc" - legitimately yields parts of differing dtype
                                #  through the derived handles; the statement asks for per-row-group COUNTS, the dtype is that of the full read)
                                if case["src"] != "fc" and str(c) in pred_dt and not _dtype_matches(pred_dt[str(c)], part.dtypes[c]):
                                    res["failures"].append({"kind": "dtype_prediction_row_group", "column": str(c), "part": pi, "predicted": str(pred_dt[str(c)]),
                                                            "got": str(part.dtypes[c]), **ctx})
                        counters["row_group_parts_predicted"] = counters.get("row_group_parts_predicted", 0) + len(parts)
                    except Exception as e:
                        counters["iter_raised"] = counters.get("iter_raised", 0) + 1    # C06's business
                # categorical / partition columns
                if "categories" not in o and want_cols is None:
                    iscat = {str(c) for c in got.columns if isinstance(got.dtypes[c], pd.CategoricalDtype)}
                    pc = set(pf.categories) | set(pred_cats)
                    if iscat != {c for c in pc if c not in idx}:
                        res["failures"].append({"kind": "categories_prediction", "predicted": sorted(pc), "got": sorted(iscat), "n_rows": len(got), **ctx})
                    for c in pred_cats:
                        if c in got.columns and len(got):
                            vals = set(got[c].dropna().unique().tolist())
                            if not vals <= set(pf.cats[c]):
                                res["failures"].append({"kind": "cats_values_prediction", "column": c, "predicted": [repr(v) for v in pf.cats[c]][:8],
                                                        "got": [repr(v) for v in vals][:8], **ctx})
                if len(got.columns):
                    n_cmp += 1
                    feats.add(str(okey))
                if pandas_nulls is False:
                    counters["pandas_nulls_false_compared"] = counters.get("pandas_nulls_false_compared", 0) + 1
            # a handle opened with dtypes= (here: the first handle's own answer): what it reports and what it reads must still agree
            if default_frame is not None and filecols and case["src"] != "fc":
                try:
                    pf2 = fastparquet.ParquetFile(path, pandas_nulls=pandas_nulls, dtypes=dict(pf.dtypes))
                    d2 = dict(pf2.dtypes)
                    g2 = pf2.to_pandas()
                except Exception as e:
                    counters["handle_given_dtypes_raised"] = counters.get("handle_given_dtypes_raised", 0) + 1
                else:
                    counters["handles_given_dtypes_compared"] = counters.get("handles_given_dtypes_compared", 0) + 1
                    for c in g2.columns:
                        if str(c) in d2 and not _dtype_matches(d2[str(c)], g2.dtypes[c]):
                            res["failures"].append({"kind": "dtype_prediction", "column": str(c), "predicted": str(d2[str(c)]), "got": str(g2.dtypes[c]), "n_rows": len(g2),
                                                    "opts": {"handle_opened_with_dtypes": "the answer of a plain handle"}, "pandas_nulls": pandas_nulls, "src": case["src"], "repeat": False})
        if case["src"] in ("c01", "c08"):
            _edited_handle(path, df, res, counters)
        res["outcome"] = "ok"
        res["nontrivial"] = n_cmp > 0
        res["features"] = [case["src"], sorted(feats),
                           sorted({c["kind"] for c in case["frame"]["cols"]}) if "frame" in case else case["id"]]
        res["sample"] = {"source": case["src"], "id": case["id"], "optionsets": n_cmp}
        return res
    finally:
        if cleanup:
            C.cleanup(path if not isinstance(path, list) else os.path.dirname(path[0]))


def _answers(pf):
    return {"columns": [str(c) for c in pf.columns], "cats": {str(k): [repr(v) for v in vs] for k, vs in pf.cats.items()},
            "dtypes": {str(k): str(v) for k, v in pf.dtypes.items()}, "categories": sorted(str(c) for c in (pf.categories or {})),
            "index": [str(i) for i in (pf._get_index() or [])], "count": int(pf.count()), "len": len(pf),
            "rg_rows": [int(rg.num_rows) for rg in pf.row_groups], "info_rows": int(pf.info["rows"]), "info_row_groups": int(pf.info["row_groups"])}


def _edited_handle(path, df, res, counters):
    """A handle that was used (read, statistics) and then edits the dataset itself (write_row_groups, remove_row_groups): its metadata-only
    answers must be the ones a fresh open gives, and must describe what it then reads."""
    import fastparquet
    from fastparquet.writer import reset_row_idx
    from vf.props import common as C
    import os
    import pandas as pd
    nomd = bool(len(df) % 2)
    try:
        if nomd:
            # a dataset without pandas metadata: dtypes then rest on the null counts of the row groups alone
            from fastparquet.writer import update_file_custom_metadata
            update_file_custom_metadata(path if os.path.isfile(path) else os.path.join(path, "_metadata"), {"pandas": None})
        pf = fastparquet.ParquetFile(path)
        pf.to_pandas()
        _answers(pf)
        pf.statistics
    except Exception:
        counters["edited_handle_warmup_failed"] = counters.get("edited_handle_warmup_failed", 0) + 1
        return
    for step in ("write_row_groups", "remove_row_groups"):
        try:
            if step == "write_row_groups":
                data = reset_row_idx(df) if pf._get_index() else df
                # the appended batch brings the first missing value into an integer column that had none
                # (only where the dtypes rest on the null counts: with pandas metadata the column's dtype was declared by the first write)
                for c_ in (list(data.columns) if nomd else []):
                    if str(data[c_].dtype).lower() in ("int8", "int16", "int32", "int64", "uint8", "uint16", "uint32") and len(data) > 1 and c_ != "rid" and not data[c_].isna().any() \
                            and next((e_.repetition_type == 1 for e_ in pf.schema.schema_elements if e_.name == c_), False):
                        data = data.copy()
                        nm_ = str(data[c_].dtype)
                        data[c_] = data[c_].astype(nm_ if nm_[0] in "IU" else ("UInt" + nm_[4:] if nm_.startswith("uint") else "Int" + nm_[3:]))
                        data.loc[data.index[0], c_] = pd.NA
                        counters["edited_handle_appends_bringing_first_nulls"] = counters.get("edited_handle_appends_bringing_first_nulls", 0) + 1
                        break
                # categorical columns of the appended batch carry labels the dataset has not seen yet
                grown = []
                for c_ in list(data.columns):
                    dt_ = data[c_].dtype
                    if isinstance(dt_, pd.CategoricalDtype) and len(data) and c_ not in pf.cats:
                        cats_ = list(dt_.categories)
                        try:
                            extra_ = [str(x) + "_new%d" % k_ for k_, x in enumerate(cats_[:2] or ["l"])] if all(isinstance(x, str) for x in cats_) else \
                                [max(cats_) + 1 + k_ for k_ in range(2)] if cats_ else []
                            if extra_ and not set(extra_) & set(cats_):
                                if not grown:
                                    data = data.copy()
                                col_ = data[c_].cat.add_categories(extra_)
                                col_.iloc[0] = extra_[0]
                                col_.iloc[-1] = extra_[-1]
                                data[c_] = col_
                                grown.append(str(c_))
                        except Exception:
                            pass
                if grown:
                    counters["edited_handle_appends_with_new_categories"] = counters.get("edited_handle_appends_with_new_categories", 0) + 1
                pf.write_row_groups(data, row_group_offsets=[0, max(1, len(data) // 2)] if len(data) > 1 else None)
            else:
                if pf.file_scheme == "simple" or len(pf.row_groups) < 2:
                    continue
                pf.remove_row_groups(pf.row_groups[0])
        except Exception as e:
            counters["edited_handle_edit_refused"] = counters.get("edited_handle_edit_refused", 0) + 1
            return
        try:
            kept = _answers(pf)
            fresh_pf = fastparquet.ParquetFile(path)
            fresh = _answers(fresh_pf)
        except Exception as e:
            res["failures"].append({"kind": "answers_raised_after_edit_through_the_handle", "step": step, **C.exc_shape(e)})
            return
        diff = {k: (kept[k], fresh[k]) for k in kept if kept[k] != fresh[k]}
        if diff:
            res["failures"].append({"kind": "edited_handle_answers_differ_from_fresh_open", "step": step,
                                    "differs": {k: [repr(a)[:120], repr(b)[:120]] for k, (a, b) in list(diff.items())[:4]}})
        try:
            got = pf.to_pandas()
            got_f = fresh_pf.to_pandas()
        except Exception as e:
            counters["edited_handle_read_raised"] = counters.get("edited_handle_read_raised", 0) + 1     # C07's business
            return
        try:
            ncat = dict(pf.categories or {})
            for c_, n_ in ncat.items():
                if c_ in got.columns and hasattr(got[c_].dtype, "categories") and isinstance(n_, int) and len(got[c_].dtype.categories) > n_:
                    res["failures"].append({"kind": "more_categories_read_than_the_handle_reports", "step": step, "column": str(c_), "reported": n_,
                                            "read": len(got[c_].dtype.categories)})
        except Exception:
            pass
        if len(got) != kept["count"] or sum(kept["rg_rows"]) != kept["count"] or kept["info_rows"] != kept["count"]:
            res["failures"].append({"kind": "edited_handle_count_prediction", "step": step, "predicted": [kept["count"], sum(kept["rg_rows"]), kept["info_rows"]], "got": len(got)})
        if [str(c) for c in got.columns] != [str(c) for c in got_f.columns] or [str(d) for d in got.dtypes] != [str(d) for d in got_f.dtypes]:
            res["failures"].append({"kind": "edited_handle_reads_other_columns_or_dtypes_than_fresh_open", "step": step,
                                    "kept": [(str(c), str(d)) for c, d in zip(got.columns, got.dtypes)][:8], "fresh": [(str(c), str(d)) for c, d in zip(got_f.columns, got_f.dtypes)][:8]})
        counters["edited_handle_steps_compared"] = counters.get("edited_handle_steps_compared", 0) + 1


def required(tier):
    return {"optionsets_compared": 1500, "dtype_predictions": 5000, "pandas_nulls_false_compared": 500, "row_group_parts_predicted": 300, "reads_with_dtypes_mapping": 200, "edited_handle_steps_compared": 150, "files_with_nested_columns_before_flat_ones": 15, "edited_handle_appends_with_new_categories": 15, "edited_handle_appends_bringing_first_nulls": 5, "foreign_datasets_with_partly_dictionary_encoded_categoricals": 8, "handles_given_dtypes_compared": 300, "file_sets_with_columns_in_another_order": 4}
