"""C10 - metadata serialisation is lossless, IDL-conformant and safe for any size (DESIGN.md 5/C10)."""
import copy
import pickle

import numpy as np

ID = "C10"
LEVEL = "exploration"
FLAVOUR = "plain"
TECHNIQUE = "runtime monitor: differential oracle (independent Thrift compact codec typed against the Parquet IDL) on ThriftObject.to_bytes / from_buffer, on API-built values and on independently encoded foreign bytes; size-boundary cases isolated in their own worker"
RULE = ("IDL-driven values for every struct reachable from FileMetaData and PageHeader (each optional field present/absent, list lengths "
        "{0,1,2,14,15,16,300,70000}, strings/binaries {0,1,127,128,16383,16384,~500000,2 MB}, integers at the edges of the declared width) "
        "through two routes: built through the API (from_fields) and parsed from independently encoded bytes (incl. field ids >= 14, "
        "i8/i16 fields, long-form field headers); then to_bytes / pickle / copy.  non-trivial = bytes were produced and decoded by the "
        "reference; distinct = distinct (struct, route, size class, field-presence signature) tuples")
ASSUMPTIONS = ["vf/ref/compact.py implements the Thrift compact protocol specification; spec/parquet.thrift is the Parquet IDL (frozen copy)"]
CASE_TIMEOUT = 60
HANG_IS_VIOLATION = True      # a corrupted heap may also dead-lock inside malloc instead of aborting
HANG_CONFIRM_FACTOR = 2

ROOTS = ["FileMetaData", "PageHeader", "RowGroup", "ColumnChunk", "ColumnMetaData", "SchemaElement", "Statistics", "KeyValue", "LogicalType",
         "DataPageHeader", "DataPageHeaderV2", "DictionaryPageHeader", "SortingColumn", "PageEncodingStats", "TimeType", "TimestampType",
         "DecimalType", "IntType", "ColumnOrder", "TimeUnit"]
# (ColumnIndex / OffsetIndex / PageLocation / BloomFilterHeader are not reachable from FileMetaData or PageHeader and are outside the
#  property's quantifier)


def gen_cases(tier, seed):
    rng = np.random.default_rng([seed, 1010])
    cases = []
    n = 1400 if tier == "quick" else 30000
    for i in range(n):
        cases.append({"id": "V/%d/%d" % (seed, i), "root": ROOTS[i % len(ROOTS)], "seed": int(rng.integers(0, 2 ** 31)),
                      "route": ["api", "foreign", "foreign", "api"][i % 4], "long_form": (i % 23 == 0), "p_optional": [0.3, 0.6, 1.0][i % 3]})
    # size boundaries, each alone in a case (a crash identifies it)
    sizes = [16383, 16384, 65535, 65536, 260000, 499990, 500010, 700000] + ([2 * 2 ** 20] if True else [])
    for sz in sizes:
        for where in ("kv_value", "statistics_max", "created_by", "path_in_schema", "schema_name"):
            for route in ("api", "foreign"):
                cases.append({"id": "B/%s/%d/%s" % (where, sz, route), "big": where, "size": sz, "route": route, "seed": sz})
    for ln in (14, 15, 16, 300, 5000, 70000):
        for what in ("row_groups", "schema", "key_value_metadata", "encodings", "path_in_schema", "columns"):
            for route in ("api", "foreign"):
                if ln >= 5000 and what in ("columns",) and tier == "quick":
                    continue
                cases.append({"id": "L/%s/%d/%s" % (what, ln, route), "biglist": what, "length": ln, "route": route, "seed": ln})
    # metadata that came from another writer (file-level fields fastparquet never writes itself: column_orders) and is re-serialised by
    # merge / append / remove_row_groups / in-place key-value update
    for i, op in enumerate(["merge", "merge_append", "merge_remove", "update_kv", "merge_overwrite", "write_common", "selection", "merge_handles", "merge_handles_append", "merge_noverify", "update_kv_no_created_by", "append_no_created_by"] * (2 if tier == "quick" else 20)):
        cases.append({"id": "RS/%s/%d" % (op, i), "reser": op, "seed": 7000 + i, "route": "foreign", "nfiles": 2 + i % 3})
    return cases


def reserialise_case(case):
    """Foreign footers through the library's metadata-rewriting operations; every file-level field must survive."""
    import os
    import pandas as pd
    import fastparquet
    from fastparquet import writer as FW
    from vf.props import common as C
    from vf.ref import writer as W
    from vf.ref import reader as R
    counters = {}
    res = {"features": [], "nontrivial": False, "failures": [], "counters": counters}
    rng = np.random.default_rng([case["seed"], 10])
    root = C.fresh_path("")
    os.makedirs(root)
    op = case["reser"]
    ctx = {"op": op, "route": "foreign", "struct": "FileMetaData", "size_class": "reserialise", "long_form": False}
    try:
        paths, metas = [], []
        rid0 = 0
        for j in range(case["nfiles"]):
            n = int(rng.integers(3, 20))
            cols = [{"name": "rid", "ptype": "INT64", "converted": None, "rows": [int(x) for x in range(rid0, rid0 + n)], "use_dict": False, "page_rows": [10 ** 9]},
                    {"name": "s", "ptype": "BYTE_ARRAY", "converted": 0, "rows": [("v%d" % x).encode() for x in rng.integers(0, 50, n)], "use_dict": bool(j % 2), "page_rows": [7]}]
            rid0 += n
            spec = {"codec": "UNCOMPRESSED", "columns": cols, "row_groups": [n], "column_orders": True,
                    "created_by": None if op.endswith("_no_created_by") else "parquet-mr version 1.12.3 (build abc)",
                    # (a key may repeat: key_value_metadata is a list in the format)
                    "kv": [("writer.note", "kept verbatim \u00e9"), ("k%d" % j, "v"), ("dup", "first"), ("between", "x"), ("dup", "second"), ("flag-without-value", None)] if j == 0 else [("writer.note", "kept verbatim \u00e9")]}
            data, fmd = W.build_file(spec)
            p = os.path.join(root, "part.%d.parquet" % j)     # the naming append / renumbering expect
            with open(p, "wb") as f:
                f.write(data)
            paths.append(p)
            metas.append(fmd)
        src = metas[0]

        def file_level(path):
            info = R.read_file(path, data_dir=root, check_pages=False)
            return info

        def check(path, what, expect_rgs=None):
            info = file_level(path)
            for code, where, detail in info.diags:
                if code == "NUM_ROWS" and path.endswith("_common_metadata"):
                    continue        # a schema-only summary keeps the dataset's row count with an empty row-group list (a note, see C02)
                res["failures"].append({"kind": "idl_violation", "code": code, "where": what + ":" + where, "detail": detail[:120], **ctx})
            m = info.meta
            if m is None:
                return
            for fld in ("column_orders", "created_by", "schema", "version"):
                a, b = CP_.normalise(src.get(fld)), CP_.normalise(m.get(fld))
                if a != b:
                    res["failures"].append({"kind": "value_changed", "path": what + "." + fld, "expected": repr(a)[:80], "got": "<absent>" if m.get(fld) is None else repr(b)[:80], **ctx})
            from collections import Counter
            kv_src = Counter((e["key"], e.get("value")) for e in (src.get("key_value_metadata") or []))
            kv_got = Counter((e["key"], e.get("value")) for e in (m.get("key_value_metadata") or []))
            for (k_, v_), n_ in kv_src.items():
                if kv_got.get((k_, v_), 0) < n_ and not (what.startswith("update") and k_ in (b"k0",)):
                    res["failures"].append({"kind": "value_changed", "path": what + ".key_value_metadata[%r]" % k_, "expected": repr(v_)[:60],
                                            "got": repr([v2 for (k2, v2) in kv_got if k2 == k_])[:60], **ctx})
            counters["reserialised_footers_checked"] = counters.get("reserialised_footers_checked", 0) + 1
        from vf.ref import compact as CP_
        if op == "selection":
            # the metadata of a row-group selection of a library-written dataset, serialised the ways a selection gets serialised
            import pickle
            from vf.ref import idl as IDL_
            d2 = os.path.join(root, "own")
            fastparquet.write(d2, pd.DataFrame({"rid": np.arange(30, dtype="int64"), "s": ["t%d" % (x % 7) for x in range(30)],
                                                "c": pd.Categorical(["u", "v", "w"] * 10)}), file_scheme="hive", row_group_offsets=8)
            pf = fastparquet.ParquetFile(d2)
            for label, sub in (("pf[:2]", pf[:2]), ("pf[1]", pf[1]), ("pf[::2] pickled", pickle.loads(pickle.dumps(pf[::2]))), ("pf", pf)):
                raw = bytes(sub.fmd.to_bytes())
                val, end, diags = CP_.parse(raw, "FileMetaData", IDL_.load())
                for code, where, detail in diags:
                    res["failures"].append({"kind": "idl_violation", "code": code, "where": "%s.fmd.to_bytes():%s" % (label, where), "detail": detail[:120], **ctx})
                counters["reserialised_footers_checked"] = counters.get("reserialised_footers_checked", 0) + 1
            sub = pf[:2]
            sub._write_common_metadata()
            for fn_ in ("_metadata", "_common_metadata"):
                info = R.read_file(os.path.join(d2, fn_), data_dir=d2, check_pages=False)
                for code, where, detail in info.diags:
                    if code == "NUM_ROWS":
                        continue      # a selection keeps its parent's num_rows; row-count consistency is C02 / C17's subject, not serialisation
                    res["failures"].append({"kind": "idl_violation", "code": code, "where": "selection._write_common_metadata:%s:%s" % (fn_, where), "detail": detail[:120], **ctx})
                counters["reserialised_footers_checked"] = counters.get("reserialised_footers_checked", 0) + 1
        elif op in ("update_kv", "update_kv_no_created_by"):
            FW.update_file_custom_metadata(paths[0], {"added": "x" * int(rng.integers(1, 40)), "k0": None})
            check(paths[0], "update_kv")
        elif op == "append_no_created_by":
            # (an append to a single file of a writer that left created_by out: the field stays as it was - absent)
            fastparquet.write(paths[0], pd.DataFrame({"rid": np.arange(1000, 1003, dtype="int64"), "s": ["a", "b", "c"]}), append=True, write_index=False)
            check(paths[0], "append")
        elif op == "write_common":
            pf = fastparquet.ParquetFile(paths[0])
            FW.write_common_metadata(os.path.join(root, "_common_metadata"), pf.fmd, no_row_groups=True)
            check(os.path.join(root, "_common_metadata"), "write_common")
        else:
            # (the pieces given as paths, or as handles the caller opened itself)
            if op == "merge_noverify":
                # three or more files, no schema verification: the footers are fetched together and spliced; every chunk of the summary must
                # say which file it lives in (checked by decoding the pages through _metadata)
                extra_ = os.path.join(root, "part.%d.parquet" % len(paths))
                import shutil
                if len(paths) < 3:
                    shutil.copy(paths[-1], extra_)
                    paths.append(extra_)
                FW.merge(paths, verify_schema=False)
                info_ = R.read_file(os.path.join(root, "_metadata"), data_dir=root)
                for code, where, detail in info_.diags:
                    res["failures"].append({"kind": "idl_violation", "code": code, "where": "merge(verify_schema=False):_metadata:" + where, "detail": detail[:120], **ctx})
                counters["summaries_of_unverified_merges_decoded"] = counters.get("summaries_of_unverified_merges_decoded", 0) + 1
            else:
                FW.merge([fastparquet.ParquetFile(p_) for p_ in paths] if op.startswith("merge_handles") else paths)
            check(os.path.join(root, "_metadata"), "merge:_metadata")
            check(os.path.join(root, "_common_metadata"), "merge:_common_metadata")
            if op in ("merge_append", "merge_handles_append"):
                before_files = set(os.listdir(root))
                fastparquet.write(root, pd.DataFrame({"rid": np.arange(1000, 1005, dtype="int64"), "s": ["a", "b", "c", "d", "e"]}),
                                  file_scheme="hive", append=True, write_index=False)
                check(os.path.join(root, "_metadata"), "append:_metadata")
                check(os.path.join(root, "_common_metadata"), "append:_common_metadata")
                # the part file(s) the append wrote carry a footer derived from the merged metadata
                for fn_ in sorted(set(os.listdir(root)) - before_files):
                    info_ = R.read_file(os.path.join(root, fn_), data_dir=root, check_pages=False)
                    for code, where, detail in info_.diags:
                        res["failures"].append({"kind": "idl_violation", "code": code, "where": "append:new part file:" + where, "detail": detail[:120], **ctx})
                    counters["appended_part_footers_checked"] = counters.get("appended_part_footers_checked", 0) + 1
            elif op == "merge_remove":
                pf = fastparquet.ParquetFile(root)
                pf.remove_row_groups(pf.row_groups[0])
                check(os.path.join(root, "_metadata"), "remove:_metadata")
                check(os.path.join(root, "_common_metadata"), "remove:_common_metadata")
            elif op == "merge_overwrite":
                pf = fastparquet.ParquetFile(root)
                pf.write_row_groups(pd.DataFrame({"rid": np.arange(2000, 2003, dtype="int64"), "s": ["x", "y", "z"]}))
                check(os.path.join(root, "_metadata"), "write_row_groups:_metadata")
                check(os.path.join(root, "_common_metadata"), "write_row_groups:_common_metadata")
        counters["reserialise_cases"] = 1
        counters["route:foreign"] = 1
    except Exception as e:
        res["failures"].append({"kind": "round_trip_raised", **ctx, **C.exc_shape(e)})
    finally:
        C.cleanup(root)
    res["outcome"] = "ok"
    res["nontrivial"] = True
    res["features"] = ["FileMetaData", "reserialise", op, case["nfiles"], False]
    return res


def to_thrift(idl, sname, tree):
    from fastparquet.cencoding import ThriftObject
    kwargs = {}
    i32ids = []
    for f in idl.structs[sname]:
        if f["name"] not in tree:
            continue
        v = tree[f["name"]]
        t = f["type"]
        if isinstance(t, tuple):
            if t[1] in idl.structs:
                v = [to_thrift(idl, t[1], x) for x in v]
            elif t[1] == "string":
                v = [x.decode("utf8") if isinstance(x, bytes) else x for x in v]
        elif t in idl.structs:
            v = to_thrift(idl, t, v)
        if t == "i32" or (not isinstance(t, tuple) and t in idl.enums):
            i32ids.append(f["id"])
        kwargs[f["name"]] = v
    return ThriftObject.from_fields(sname, i32list=i32ids or None, **kwargs)


def big_tree(case, idl):
    rng = np.random.default_rng([case["seed"], 3])
    sz = case["size"]
    blob = bytes(rng.integers(97, 123, sz, dtype="uint8"))
    cmd = {"type": 6, "encodings": [0], "path_in_schema": [b"col"], "codec": 0, "num_values": 10, "total_uncompressed_size": 100,
           "total_compressed_size": 100, "data_page_offset": 4}
    se = [{"name": b"schema", "num_children": 1}, {"name": b"col", "type": 6, "repetition_type": 0}]
    kv = [{"key": b"k", "value": b"v"}]
    created = b"refpq"
    w = case["big"]
    if w == "kv_value":
        kv = [{"key": b"k", "value": blob}]
    elif w == "statistics_max":
        cmd["statistics"] = {"max": blob, "min": blob[: sz // 2], "null_count": 0}
    elif w == "created_by":
        created = blob
    elif w == "path_in_schema":
        cmd["path_in_schema"] = [blob]
    elif w == "schema_name":
        se[1]["name"] = blob
    rg = {"columns": [{"file_offset": 4, "meta_data": cmd}], "total_byte_size": 100, "num_rows": 10}
    return "FileMetaData", {"version": 1, "schema": se, "num_rows": 10, "row_groups": [rg], "key_value_metadata": kv, "created_by": created}


def list_tree(case, idl):
    n = case["length"]
    w = case["biglist"]
    cmd = {"type": 1, "encodings": [0, 3], "path_in_schema": [b"a"], "codec": 0, "num_values": 1, "total_uncompressed_size": 10,
           "total_compressed_size": 10, "data_page_offset": 4}
    if w == "encodings":
        cmd["encodings"] = [i % 9 for i in range(n)]
    if w == "path_in_schema":
        cmd["path_in_schema"] = [b"p%d" % i for i in range(n)]
    cols = [{"file_offset": 4 + i, "meta_data": dict(cmd)} for i in range(n if w == "columns" else 1)]
    rgs = [{"columns": cols, "total_byte_size": 10, "num_rows": 1} for _ in range(n if w == "row_groups" else 1)]
    se = [{"name": b"schema", "num_children": (n if w == "schema" else 1)}] + [{"name": b"c%d" % i, "type": 1, "repetition_type": 1} for i in range(n if w == "schema" else 1)]
    kv = [{"key": b"k%d" % i, "value": b"v%d" % i} for i in range(n if w == "key_value_metadata" else 1)]
    return "FileMetaData", {"version": 1, "schema": se, "num_rows": len(rgs), "row_groups": rgs, "key_value_metadata": kv, "created_by": b"x"}


def run_case(case):
    from fastparquet.cencoding import ThriftObject, from_buffer
    from vf.ref import compact as CP
    from vf.ref import idl as IDL
    from vf.gen import thriftgen as TG
    idl = IDL.load()
    counters = {}
    res = {"features": [], "nontrivial": False, "failures": [], "counters": counters}
    if "reser" in case:
        return reserialise_case(case)
    route = case["route"]
    if "big" in case:
        sname, tree = big_tree(case, idl)
        sizeclass = "big:%s:%d" % (case["big"], case["size"])
    elif "biglist" in case:
        sname, tree = list_tree(case, idl)
        sizeclass = "list:%s:%d" % (case["biglist"], case["length"])
    else:
        rng = np.random.default_rng([case["seed"], 4])
        sname = case["root"]
        opts = {"p_optional": case["p_optional"], "exclude_small_ints": route == "api", "max_depth": 3}
        tree = TG.gen_value(rng, idl, sname, 0, opts)
        sizeclass = "small"
        if tree is None:
            res["outcome"] = "skip"
            counters["not_constructible_through_api"] = 1
            return res
    want = CP.normalise(tree)
    ref_bytes = CP.encode(tree, sname, idl, long_form=bool(case.get("long_form")) and route == "foreign")
    ctx = {"struct": sname, "route": route, "size_class": sizeclass, "long_form": bool(case.get("long_form")) and route == "foreign",
           "ref_len": len(ref_bytes)}
    # self-check of the oracle on its own bytes
    back, _, d0 = CP.parse(ref_bytes, sname, idl)
    if d0 or CP.tree_diff(want, CP.normalise(back)):
        raise RuntimeError("reference codec does not round-trip its own value: %r %r" % (d0[:2], CP.tree_diff(want, CP.normalise(back))[:2]))
    try:
        if route == "api":
            try:
                obj = to_thrift(idl, sname, tree)
            except KeyError as e:
                res["outcome"] = "skip"
                counters["struct_unknown_to_library"] = 1
                return res
        else:
            obj = from_buffer(ref_bytes, sname)
    except Exception as e:
        from vf.props.common import exc_shape
        res["failures"].append({"kind": "construction_raised", **ctx, **exc_shape(e)})
        res["outcome"] = "ok"
        res["nontrivial"] = True
        return res
    try:
        out = bytes(obj.to_bytes())
    except Exception as e:
        from vf.props.common import exc_shape
        sh = exc_shape(e)
        # an over-limit input may end in a Python exception (C12) - but then nothing was serialised: record which
        res["failures"].append({"kind": "to_bytes_raised", **ctx, **sh})
        res["outcome"] = "ok"
        res["nontrivial"] = True
        return res
    counters["serialisations"] = 1
    counters["bytes_serialised"] = len(out)
    got, end, diags = CP.parse(out, sname, idl)
    seen = set()
    for code, where, detail in diags:
        key = (code, where.split("[")[0])
        if key in seen:
            continue
        seen.add(key)
        res["failures"].append({"kind": "idl_violation", "code": code, "where": where, "detail": detail[:120], **ctx})
    changed = []
    if got is not None:
        changed = CP.tree_diff(want, CP.normalise(got))
        for path, a, b in changed[:6]:
            res["failures"].append({"kind": "value_changed", "path": path, "expected": a, "got": b, **ctx})
        for f in res["failures"]:
            if f.get("kind") == "idl_violation" and f.get("code") == "UNION_ARITY":
                # which member of the union went missing?
                lost = [p_.rsplit(".", 1)[-1] for p_, a, b in changed if b == "<absent>"]
                f["lost_members"] = sorted(set(lost))
        if len(out) != len(ref_bytes) and not ctx["long_form"] and not diags and not changed:
            res["failures"].append({"kind": "length_differs_from_reference", "got": len(out), **ctx})
    # library-level round trip and copies
    try:
        again = from_buffer(out, sname)
        if not (again == obj) and not changed and not diags:
            res["failures"].append({"kind": "from_buffer_of_to_bytes_not_equal", **ctx})
        p = pickle.loads(pickle.dumps(obj))
        if bytes(p.to_bytes()) != out:
            res["failures"].append({"kind": "pickle_round_trip_changes_bytes", **ctx})
        c = copy.copy(obj)
        d = copy.deepcopy(obj)
        if bytes(c.to_bytes()) != out or bytes(d.to_bytes()) != out:
            res["failures"].append({"kind": "copy_changes_bytes", **ctx})
        counters["round_trips"] = 1
    except Exception as e:
        from vf.props.common import exc_shape
        res["failures"].append({"kind": "round_trip_raised", **ctx, **exc_shape(e)})
    res["outcome"] = "ok"
    res["nontrivial"] = True
    sig = tuple(sorted(tree)) if isinstance(tree, dict) else ()
    res["features"] = [sname, route, sizeclass, list(sig), ctx["long_form"]]
    counters["route:" + route] = 1
    res["sample"] = {"struct": sname, "route": route, "size_class": sizeclass, "fields": list(sig), "bytes": len(out)}
    return res


def required(tier):
    return {"serialisations": 800, "round_trips": 700, "route:api": 200, "route:foreign": 300, "reserialised_footers_checked": 15}
