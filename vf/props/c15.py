"""C15 - LIST and MAP columns are assembled into the right per-row lists and dicts (DESIGN.md 5/C15)."""
import numpy as np

ID = "C15"
LEVEL = "exploration"
FLAVOUR = "plain"
TECHNIQUE = "runtime monitor: nested files emitted by the independent spec-level encoder (Dremel shredding in vf/ref/writer.py, re-assembled by vf/ref/reader.py first) are read with the library and compared row by row with the Python objects that were shredded; contract on _assemble_objects' return value"
RULE = ("seeded columns of type optional/required LIST<optional/required primitive> and MAP<required primitive, optional primitive> with "
        "lengths 0..m (incl. rows longer than a page), null rows, null elements, 1..k pages cut at arbitrary value positions incl. inside a row "
        "(v1) or at row boundaries (v2), plain or dictionary values, 1-3 row groups, primitives int32/int64/double/utf8/boolean; non-trivial = "
        ">=1 row compared; distinct = distinct (kind, optionality, element type, page version, dictionary, page cut class, codec) tuples")
ASSUMPTIONS = ["the reference writer's file is first validated and re-assembled by the reference reader; a disagreement there is a harness error"]
CASE_TIMEOUT = 120

PRIMS = ["i32", "i64", "f64", "utf8", "bool"]


def gen_cases(tier, seed):
    rng = np.random.default_rng([seed, 1515])
    cases = []
    n = 500 if tier == "quick" else 10000
    for i in range(n):
        kind = ["LIST", "LIST", "MAP"][i % 3]
        cases.append({"id": "N/%d/%d" % (seed, i), "seed": int(rng.integers(0, 2 ** 31)), "kind": kind, "prim": PRIMS[int(rng.integers(0, len(PRIMS)))],
                      "key_prim": ["utf8", "i32", "i64"][int(rng.integers(0, 3))],
                      "top_optional": bool(rng.integers(0, 2)), "elem_optional": bool(rng.integers(0, 2)),
                      "row_groups": [int(rng.integers(1, 40)) for _ in range(int(rng.integers(1, 4)))],
                      "max_len": int([0, 1, 3, 8, 30][int(rng.integers(0, 5))]), "p_null_row": float([0, 0.2, 0.6][int(rng.integers(0, 3))]),
                      "p_null_elem": float([0, 0.3][int(rng.integers(0, 2))]), "p_empty": float([0, 0.3][int(rng.integers(0, 2))]),
                      "page_values": [int(x) for x in rng.integers(1, 25, 3)] if i % 4 else [10 ** 9],
                      "page_version": [1, 1, 2, [1, 2]][int(rng.integers(0, 4))], "use_dict": bool(rng.integers(0, 2)),
                      "_": 0,
                      "codec": ["UNCOMPRESSED", "SNAPPY", "GZIP", "ZSTD"][int(rng.integers(0, 4))],
                      "long_rows": bool(i % 7 == 0), "stats_nulls": bool(i % 4 == 1), "colname": [None, "key", "value"][(i // 3) % 3] if i % 5 == 2 else None})
    # dictionary fallback inside a nested chunk: the first page(s) dictionary-encoded, the rest PLAIN (what parquet-mr / parquet-cpp do
    # once a dictionary grows too large); v1 pages, rows may continue across the change of encoding
    for i in range(90 if tier == "quick" else 1500):
        cases.append({"id": "NF/%d/%d" % (seed, i), "seed": int(rng.integers(0, 2 ** 31)), "kind": ["LIST", "MAP", "LIST"][i % 3], "prim": ["i64", "utf8", "i32", "f64"][i % 4],
                      "key_prim": ["utf8", "i32", "i64"][int(rng.integers(0, 3))],
                      "top_optional": bool(rng.integers(0, 2)), "elem_optional": bool(rng.integers(0, 2)),
                      "row_groups": [int(rng.integers(8, 40)) for _ in range(int(rng.integers(1, 3)))],
                      "max_len": int([3, 8, 30][int(rng.integers(0, 3))]), "p_null_row": float([0, 0.2][int(rng.integers(0, 2))]),
                      "p_null_elem": float([0, 0.3][int(rng.integers(0, 2))]), "p_empty": float([0, 0.3][int(rng.integers(0, 2))]),
                      "page_values": [int(x) for x in rng.integers(3, 25, 3)], "page_version": 1, "use_dict": True, "dict_fallback_page": 1 + i % 2,
                      "_": 0, "codec": ["UNCOMPRESSED", "SNAPPY", "GZIP", "ZSTD"][int(rng.integers(0, 4))], "long_rows": bool(i % 5 == 0)})
    # files with several nested columns of differing shape (levels must be derived per column path)
    for i in range(60 if tier == "quick" else 1500):
        ncol = int(rng.integers(2, 4))
        subs = []
        for j in range(ncol):
            subs.append({"seed": int(rng.integers(0, 2 ** 31)), "kind": ["LIST", "LIST", "MAP"][int(rng.integers(0, 3))], "prim": PRIMS[int(rng.integers(0, len(PRIMS)))],
                         "key_prim": ["utf8", "i32", "i64"][int(rng.integers(0, 3))],
                         "top_optional": bool((i + j) % 2) if i % 3 else bool(rng.integers(0, 2)), "elem_optional": bool((i // 2 + j) % 2),
                         "max_len": int([1, 3, 8][int(rng.integers(0, 3))]), "p_null_row": float([0, 0.3][int(rng.integers(0, 2))]),
                         "p_null_elem": 0.3, "p_empty": float([0, 0.3][int(rng.integers(0, 2))]),
                         "page_values": [int(x) for x in rng.integers(2, 25, 3)] if i % 2 else [10 ** 9],
                         "page_version": 1, "use_dict": bool(rng.integers(0, 2)), "_": 0, "long_rows": False})
        cases.append({"id": "NM/%d/%d" % (seed, i), "cols": subs, "row_groups": [int(rng.integers(1, 40)) for _ in range(int(rng.integers(1, 3)))],
                      "codec": ["UNCOMPRESSED", "SNAPPY"][int(rng.integers(0, 2))],
                      # top-level keys the known-finding predicates and features look at
                      "kind": "MULTI", "page_version": 1})
    # the names of the inner groups as other writers spell them (bag / array_element, map; list / item)
    for i in range(60 if tier == "quick" else 1000):
        cases.append({"id": "NL/%d/%d" % (seed, i), "seed": int(rng.integers(0, 2 ** 31)), "kind": ["LIST", "MAP", "LIST"][i % 3], "prim": ["i64", "utf8", "i32", "f64"][i % 4],
                      "key_prim": ["utf8", "i32", "i64"][int(rng.integers(0, 3))], "top_optional": bool(rng.integers(0, 2)), "elem_optional": bool(rng.integers(0, 2)),
                      "row_groups": [int(rng.integers(2, 30)) for _ in range(int(rng.integers(1, 3)))], "max_len": int([3, 8][i % 2]), "p_null_row": 0.2, "p_null_elem": 0.2, "p_empty": 0.2,
                      "page_values": [int(x) for x in rng.integers(3, 25, 3)] if i % 2 else [10 ** 9], "page_version": 1, "use_dict": bool(rng.integers(0, 2)), "_": 0,
                      "codec": ["UNCOMPRESSED", "SNAPPY"][i % 2], "long_rows": False, "names": ["legacy", "arrow"][(i // 3) % 2]})
    # two files opened as one dataset, the nested columns at other chunk positions in the second
    for i in range(40 if tier == "quick" else 600):
        subs = []
        for j in range(2):
            subs.append({"seed": int(rng.integers(0, 2 ** 31)), "kind": ["LIST", "MAP"][j], "prim": ["i64", "utf8", "i32"][int(rng.integers(0, 3))], "key_prim": "utf8",
                         "top_optional": bool(rng.integers(0, 2)), "elem_optional": bool(rng.integers(0, 2)), "max_len": 3, "p_null_row": 0.2, "p_null_elem": 0.3, "p_empty": 0.2,
                         "page_values": [int(x) for x in rng.integers(3, 25, 3)] if i % 2 else [10 ** 9], "page_version": 1, "use_dict": bool(rng.integers(0, 2)), "_": 0, "long_rows": False})
        cases.append({"id": "NX/%d/%d" % (seed, i), "two_files": True, "cols": subs, "row_groups": [int(rng.integers(2, 20))], "codec": ["UNCOMPRESSED", "SNAPPY"][i % 2],
                      "second_layout": ["missing", "last"][i % 2], "reverse": bool(i % 4 >= 2), "kind": "MULTI", "page_version": 1})
    return cases


_state = {}


def setup_worker():
    import fastparquet.cencoding as CE
    from vf.mon import contracts

    def post(c, a, k, out, st):
        assign, defi, rep = a[0], a[1], a[2]
        prev_i = a[9] if len(a) > 9 else k.get("prev_i")
        started = int((np.asarray(rep) == 0).sum())
        # (a page without a row start only extends the previous row: the function hands back the unchanged next-free-slot index)
        want = prev_i + started - 1 if started else prev_i
        c.checked += 1
        if out != want:
            c.violations.append({"kind": "assemble_objects_return_value", "returned": int(out), "expected": int(want), "prev_i": int(prev_i),
                                 "rows_started_in_page": started, "page_values": int(len(rep)), "first_rep": int(rep[0]) if len(rep) else None})

    _state["asm"] = contracts.attach(CE, "_assemble_objects", post=post)


def make(case):
    from vf.gen import recipes as RC
    rng = np.random.default_rng([case["seed"], 15])
    total = sum(case["row_groups"])
    t = RC.TYPE_BY_NAME[case["prim"]]
    rows = []
    for r in range(total):
        if case["top_optional"] and rng.random() < case["p_null_row"]:
            rows.append(None)
            continue
        if rng.random() < case["p_empty"]:
            rows.append([])
            continue
        ln = int(rng.integers(0, case["max_len"] + 1))
        if case["long_rows"] and rng.random() < 0.15:
            ln = int(rng.integers(30, 90))
        vals = RC.gen_values(case["prim"], ln, rng, 6 if case["use_dict"] else None)
        if case["kind"] == "LIST":
            row = [None if (case["elem_optional"] and rng.random() < case["p_null_elem"]) else v for v in vals]
        else:
            keys = RC.gen_values(case["key_prim"], ln, rng)
            # distinct keys per row (dict semantics)
            seen = set()
            row = []
            for kk, v in zip(keys, vals):
                if kk in seen:
                    continue
                seen.add(kk)
                row.append((kk, None if (case["elem_optional"] and rng.random() < case["p_null_elem"]) else v))
        rows.append(row)
    cs = {"name": "n", "ptype": t[1], "converted": t[2], "rows": rows, "use_dict": case["use_dict"] and case["prim"] != "bool", "page_rows": case["page_values"],
          "page_version": case["page_version"], "def_plan": "mixed", "rep_plan": "mixed", "idx_plan": "mixed"}
    if case.get("dict_fallback_page") is not None:
        cs["dict_fallback_page"] = case["dict_fallback_page"]
    if case.get("stats_nulls"):
        # chunk statistics the way parquet-mr writes them for nested leaves: null_count = level entries that carry no value
        cs["write_stats"] = True
        cs["nested_null_count"] = True
        cs["write_minmax"] = False
    if case["kind"] == "LIST":
        cs["nested"] = {"kind": "LIST", "top_optional": case["top_optional"], "elem_optional": case["elem_optional"], "names": case.get("names")}
    else:
        kt = RC.TYPE_BY_NAME[case["key_prim"]]
        cs["nested"] = {"kind": "MAP", "top_optional": case["top_optional"], "value_optional": case["elem_optional"], "key_ptype": kt[1], "key_converted": kt[2], "names": case.get("names")}
    spec = {"codec": case["codec"], "columns": [cs], "row_groups": list(case["row_groups"])}
    return spec, rows


def canon_obj(x, prim):
    """Canonical form of one element as the recipes' expected_cell gives it."""
    from vf.mon import tables as T
    if x is None:
        return None
    c = T.canon_scalar(x)
    return c


def run_two_files(case):
    """Two files of another writer opened as one dataset; the second stores the nested columns at other chunk positions (an earlier flat
    column is absent from it, or comes last): every LIST / MAP row of both files must be assembled as stored."""
    import os
    import fastparquet
    from vf.props import common as C
    from vf.ref import writer as W
    counters = {}
    res = {"features": [], "nontrivial": False, "failures": [], "counters": counters}
    root = C.fresh_path("")
    os.makedirs(root)
    try:
        subs = [dict(c, row_groups=case["row_groups"], codec=case["codec"]) for c in case["cols"]]
        names = ["n%d" % j for j in range(len(subs))]
        flat = lambda n_, off: {"name": "s", "ptype": "INT64", "converted": None, "rows": [off + i for i in range(n_)], "optional": False, "page_rows": [10 ** 9], "use_dict": False}
        total = sum(case["row_groups"])
        files, rows_all = [], [[] for _ in subs]
        for fi in range(2):
            ncols = []
            for j, (sub, name) in enumerate(zip(subs, names)):
                spec1, rows1 = make(dict(sub, seed=sub["seed"] + 7919 * fi))
                spec1["columns"][0]["name"] = name
                ncols.append(spec1["columns"][0])
                rows_all[j] += rows1
            layout = ["first", case["second_layout"]][fi]
            cols = {"first": [flat(total, 0)] + ncols, "missing": ncols, "last": ncols + [flat(total, 1000)]}[layout]
            data, _ = W.build_file({"codec": case["codec"], "columns": cols, "row_groups": list(case["row_groups"])})
            p = os.path.join(root, "f%d.parquet" % fi)
            with open(p, "wb") as f:
                f.write(data)
            files.append(p)
        order = files if not case.get("reverse") else files[::-1]
        if case.get("reverse"):
            rows_all = [r[total:] + r[:total] for r in rows_all]
        ctx = {"nested": "MULTI", "page_version": 1, "two_files": True, "second_layout": case["second_layout"], "reverse": bool(case.get("reverse")), "codec": case["codec"],
               "row_groups": case["row_groups"], "use_dict": None, "prim": None, "top_optional": None, "elem_optional": None, "single_page": None, "long_rows": False}
        try:
            got = fastparquet.ParquetFile(order).to_pandas(columns=names)
        except Exception as e:
            res["failures"].append({"kind": "read_raised", **ctx, **C.exc_shape(e)})
        else:
            for sub, name, rows in zip(subs, names, rows_all):
                sctx = dict(ctx, nested=sub["kind"], prim=sub["prim"], top_optional=sub["top_optional"], elem_optional=sub["elem_optional"],
                            use_dict=sub["use_dict"], single_page=sub["page_values"] == [10 ** 9], column=name)
                _compare_column(sub, name, rows, got, sctx, res, counters)
            counters["two_file_datasets_with_shifted_chunk_positions"] = 1
        res["outcome"] = "ok"
        res["nontrivial"] = True
        res["features"] = ["two_files", case["second_layout"], bool(case.get("reverse")), len(subs)]
        return res
    finally:
        C.cleanup(root)


def run_case(case):
    import fastparquet
    from vf.props import common as C
    from vf.gen import recipes as RC
    from vf.ref import writer as W
    from vf.ref import reader as R
    if case.get("two_files"):
        return run_two_files(case)
    counters = {}
    res = {"features": [], "nontrivial": False, "failures": [], "counters": counters}
    path = C.fresh_path(".parq")
    try:
        subs = [dict(c, row_groups=case["row_groups"], codec=case["codec"]) for c in case["cols"]] if case.get("cols") else [case]
        names = ["n"] if len(subs) == 1 else ["n%d" % j for j in range(len(subs))]
        if len(subs) == 1 and case.get("colname"):
            # a top-level column called like the inner fields of a MAP ("key", "value")
            names = [case["colname"]]
            counters["columns_named_like_map_fields"] = 1
        cols_spec, rows_by = [], []
        for sub, name in zip(subs, names):
            spec1, rows1 = make(sub)
            spec1["columns"][0]["name"] = name
            cols_spec.append(spec1["columns"][0])
            rows_by.append(rows1)
        spec = {"codec": case["codec"], "columns": cols_spec, "row_groups": list(case["row_groups"])}
        data, fmd = W.build_file(spec)
        info = R.read_file(data)
        if info.diags:
            raise RuntimeError("reference reader rejects the reference writer's nested file: %r" % info.diags[:2])
        # the reference's own re-assembly must give the rows back
        for sub, name, rows1, cs in zip(subs, names, rows_by, cols_spec):
            if sub["kind"] == "LIST":
                mid_, el_ = {"legacy": ("bag", "array_element"), "arrow": ("list", "item")}.get(sub.get("names"), ("list", "element"))
                back = R.assemble_nested(info.columns[(name, mid_, el_)])
                want_ref = [None if r is None else [None if e is None else R.convert_value(e, cs["ptype"], R.logical_kind({"converted_type": cs["converted"]})) for e in r] for r in rows1]
                if back != want_ref:
                    raise RuntimeError("reference reader re-assembles its own LIST file differently")
        counters["nested_columns"] = len(subs)
        if len(subs) > 1:
            counters["multi_nested_column_files"] = 1
        if case.get("dict_fallback_page") is not None:
            counters["nested_dictionary_fallback_files"] = 1
        if case.get("names"):
            counters["files_with_other_group_names"] = 1
        if case.get("stats_nulls"):
            counters["files_with_null_counts_on_nested_chunks"] = 1
            if case.get("max_len") == 0:
                counters["files_of_only_empty_or_missing_rows_with_null_counts"] = 1
        case = dict(subs[0], id=case["id"], row_groups=case["row_groups"], codec=case["codec"], n_nested_columns=len(subs))
        with open(path, "wb") as f:
            f.write(data)
        ctx = {"nested": case["kind"], "prim": case["prim"], "top_optional": case["top_optional"], "elem_optional": case["elem_optional"],
               "page_version": case["page_version"], "use_dict": case["use_dict"], "codec": case["codec"],
               "single_page": case["page_values"] == [10 ** 9], "long_rows": case["long_rows"], "row_groups": case["row_groups"],
               "dict_fallback_page": case.get("dict_fallback_page")}
        asm = _state.get("asm")
        a0 = asm.stats() if asm else None
        try:
            got = fastparquet.ParquetFile(path).to_pandas()
        except Exception as e:
            res["failures"].append({"kind": "read_raised", **ctx, **C.exc_shape(e)})
            res["outcome"] = "ok"
            res["nontrivial"] = True
            res["features"] = _feat(case)
            return res
        if asm:
            counters["assemble_calls_checked"] = asm.stats()["checked"] - a0["checked"]
            for v in asm.drain():
                v.update(ctx)
                res["failures"].append(v)
        for sub, name, rows in zip(subs, names, rows_by):
            sctx = dict(ctx, nested=sub["kind"], prim=sub["prim"], top_optional=sub["top_optional"], elem_optional=sub["elem_optional"],
                        page_version=sub["page_version"], use_dict=sub["use_dict"], single_page=sub["page_values"] == [10 ** 9],
                        long_rows=sub["long_rows"], column=name)
            _compare_column(sub, name, rows, got, sctx, res, counters)
        rows = rows_by[0]
        res["outcome"] = "ok"
        res["nontrivial"] = len(rows) > 0
        res["features"] = _feat(case)
        res["sample"] = {"case": {k: v for k, v in case.items() if k not in ("id",)}, "first_rows": repr(rows[:3])[:200]}
        return res
    finally:
        C.cleanup(path)


def _compare_column(case, name, rows, got, ctx, res, counters):
    col = got[name].tolist() if name in got else None
    if col is None:
        res["failures"].append({"kind": "column_missing", "got_columns": [str(c) for c in got.columns], **ctx})
    elif len(col) != len(rows):
        res["failures"].append({"kind": "row_count", "expected": len(rows), "got": len(col), **ctx})
    else:
        bad = []
        for i, (e, g) in enumerate(zip(rows, col)):
            if not same_row(e, g, case):
                bad.append(i)
        if bad:
            i = bad[0]
            def nulls_moved(e, g):
                """the row lost trailing null elements, or gained leading null elements (those lost by the row before it)"""
                if e is None or g is None:
                    return False
                if case["kind"] == "LIST":
                    if not isinstance(g, list):
                        return False
                    amax = next((i_ for i_, v in enumerate(g) if v is not None), len(g))
                    for a_ in range(0, amax + 1):        # a_ leading nulls gained, b_ trailing nulls lost
                        b_ = len(e) - (len(g) - a_)
                        if b_ < 0 or a_ + b_ == 0:
                            continue
                        if all(x is None for x in e[len(e) - b_:]) and same_row(e[:len(e) - b_], g[a_:], case):
                            return True
                    return False
                if not isinstance(g, dict):
                    return False
                keys = [(k.decode("utf8") if isinstance(k, bytes) else k) for k, v in e]
                vals = [v for k, v in e]
                gk, gv = list(g.keys()), list(g.values())
                if gk != keys[:len(gk)]:
                    return False
                # the value list lost b_ trailing nulls and / or gained a_ leading ones (lost by the row before); dict(zip(keys, values))
                # then cuts the row to the shorter of the two lists
                nn = [v is not None for v in vals]
                bmax = len(vals) - (max(i_ for i_, x in enumerate(nn) if x) + 1 if any(nn) else 0)
                amax = next((i_ for i_, v in enumerate(gv) if v is not None), len(gv))
                for a_ in range(0, amax + 1):
                    for b_ in range(0, bmax + 1):
                        if a_ + b_ == 0:
                            continue
                        shifted = [None] * a_ + vals[:len(vals) - b_]
                        if len(gk) == min(len(keys), len(shifted)) and all(_same_elem(x, y, case["prim"]) for x, y in zip(shifted, gv)):
                            return True
                return False
            all_tail = all(nulls_moved(rows[j], col[j]) for j in bad)
            res["failures"].append({"kind": "rows_differ", "n_bad": len(bad), "n": len(rows), "first_bad": bad[:5],
                                    "expected": repr(rows[i])[:160], "got": repr(col[i])[:160],
                                    "expected_none_got_value": rows[i] is None and col[i] is not None,
                                    "expected_value_got_none": rows[i] is not None and col[i] is None,
                                    "only_trailing_null_elements_missing": all_tail, **ctx})
        counters["rows_compared"] = counters.get("rows_compared", 0) + len(rows)


def same_row(e, g, case):
    from vf.gen import recipes as RC
    if e is None:
        return g is None
    if g is None:
        return False
    if case["kind"] == "LIST":
        if isinstance(g, np.ndarray):
            g = g.tolist()
        if not isinstance(g, list) or len(g) != len(e):
            return False
        return all(_same_elem(a, b, case["prim"]) for a, b in zip(e, g))
    if not isinstance(g, dict) or len(g) != len(e):
        return False
    for (k, v) in e:
        kk = k.decode("utf8") if isinstance(k, bytes) else k
        if kk not in g:
            return False
        if not _same_elem(v, g[kk], case["prim"]):
            return False
    return list(g.keys()) == [(k.decode("utf8") if isinstance(k, bytes) else k) for k, v in e]


def _same_elem(a, b, prim):
    from vf.gen import recipes as RC
    from vf.mon import tables as T
    if a is None or b is None:
        return a is None and b is None
    exp = RC.expected_cell(prim, a)
    got = T.canon_scalar(b)
    if isinstance(exp, tuple) and exp[0] in ("f4", "f8") and isinstance(got, tuple) and got[0] in ("f4", "f8"):
        return float(a) == float(b)
    if isinstance(exp, int) and isinstance(got, int):
        return exp == got
    return exp == got


def _feat(case):
    pv = case["page_values"]
    cut = "single" if pv == [10 ** 9] else ("tiny" if min(pv) <= 2 else "small")
    return [case["kind"], case["top_optional"], case["elem_optional"], case["prim"], str(case["page_version"]), case["use_dict"], cut, case["codec"], case["long_rows"], case.get("dict_fallback_page")]


def required(tier):
    return {"rows_compared": 3000, "assemble_calls_checked": 500, "multi_nested_column_files": 20, "nested_dictionary_fallback_files": 40, "two_file_datasets_with_shifted_chunk_positions": 20, "files_with_other_group_names": 30, "files_with_null_counts_on_nested_chunks": 60,
            "files_of_only_empty_or_missing_rows_with_null_counts": 8, "columns_named_like_map_fields": 20}
