"""C14 - opening or merging many files yields their concatenation (DESIGN.md 5/C14)."""
import copy
import itertools
import os

import numpy as np

ID = "C14"
LEVEL = "exploration"
FLAVOUR = "plain"
TECHNIQUE = "runtime monitor: concatenation model over per-file input frames (unique row ids) + audit log of merge() + byte snapshot of the input handles' metadata"
RULE = ("seeded sets of 1..6 single files (plus: sets of hive sub-datasets opened by path / handle / merge, files named by relative paths) written from schema-compatible frames with independent category sets, "
        "row counts incl. 0 and mixed codecs, laid out flat / hive / drill, opened via list, directory, glob and merge() with root "
        "given or inferred; plus schema-mismatch sets for the verify clause; non-trivial = a multi-file open compared on >=1 row; "
        "distinct = distinct (layout, n files, open route, root given, zero-row file, label change, legacy/new footer path) tuples")
ASSUMPTIONS = ["each input file is written by fastparquet itself from a known frame (tied to the frame by C01)",
               "directory listing order is the sorted path order returned by fsspec find/glob"]
CASE_TIMEOUT = 120

from vf.gen import datasets as D
from vf.gen import frames as F

KINDS = ["int32", "int64", "float64", "str", "ostr", "dt_ns", "cat_str", "cat_int", "Int64", "bool", "dtz_ns", "uint16", "float32", "bytes"]


def gen_cases(tier, seed):
    rng = np.random.default_rng([seed, 1414])
    cases = []
    n = 220 if tier == "quick" else 4000
    for i in range(n):
        layout = ["flat", "hive", "drill", "flat", "hive", "hive2"][i % 6]
        base = D.random_dataset(rng, "M/%d/%d" % (seed, i), scheme="simple", n_part=0, value_kinds=KINDS, max_rows=40, min_rows=1,
                                max_cols=4, index_kinds=[None, None, {"kind": "int", "name": "myidx"}])
        base["opts"]["has_nulls"] = True
        base["opts"]["row_group_offsets"] = [None, 7, None][i % 3]
        k = int(rng.integers(1, 7))
        files = []
        rid0 = 0
        for j in range(k):
            fr = copy.deepcopy(base["frame"])
            fr["seed"] = int(rng.integers(0, 2 ** 31))
            fr["nrows"] = int([0, 1, 3, 11, 25][int(rng.integers(0, 5))]) if rng.random() < 0.85 else int(rng.integers(0, 50))
            fr["rid0"] = rid0
            rid0 += fr["nrows"]
            for c in fr["cols"]:
                if c["kind"] in F.CAT_KINDS:
                    c["ncat"] = int([2, 5, 9][int(rng.integers(0, 3))])
                    c["lshift"] = int(rng.integers(0, 6)) if rng.random() < 0.5 else 0
            files.append({"frame": fr, "compression": [None, "SNAPPY", "GZIP"][int(rng.integers(0, 3))]})
        if layout == "flat":
            dirs = [""] * k
        elif layout == "hive":
            vals = [int(rng.integers(0, 3)) for _ in range(k)]
            dirs = ["a=%d" % v for v in vals]
        elif layout == "hive2":
            dirs = ["a=%d/b=%s" % (int(rng.integers(0, 2)), ["x", "y"][int(rng.integers(0, 2))]) for _ in range(k)]
        else:
            dirs = [["x", "y", "z"][int(rng.integers(0, 3))] for _ in range(k)]
        if layout in ("hive", "drill") and (i // 6) % 2 == 1:
            # sibling directories whose names begin with the name of the first file's directory (a=1, a=10, a=11 / x, xy, xyz)
            m = {"a=0": "a=1", "a=1": "a=10", "a=2": "a=11", "x": "x", "y": "xy", "z": "xyz"}
            dirs = [m[d_] for d_ in dirs]
            dirs[0] = "a=1" if layout == "hive" else "x"
            base["prefix_named_dirs"] = len(set(dirs)) > 1
        for j, f in enumerate(files):
            f["rel"] = (dirs[j] + "/" if dirs[j] else "") + "f%02d.parquet" % j
        base["files"] = files
        base["layout"] = layout
        base["route"] = ["list", "dir", "glob", "merge", "merge_pf", "list_root", "merge_root"][int(rng.integers(0, 7))]
        base["mismatch"] = [None, None, None, None, "renamed", "dtype", "extra"][int(rng.integers(0, 7))] if k >= 2 else None
        if base["mismatch"] and i % 3 == 0:
            # files that differ only in a PARAMETER of a type: time-zone awareness of a timestamp, width of a fixed-width text
            base["mismatch"] = ["tz", "width"][(i // 3) % 2]
        cases.append(base)
    # --- footer-length lattice: the footers of files 2..k are fetched together with a tail of int(1.4 * first footer) bytes and
    #     re-fetched when that is too small: the third file's footer length is stepped across that boundary
    k = 0
    for d in (range(-12, 6) if tier == "quick" else range(-40, 24)):
        for route in (["list", "dir"] if tier == "quick" else ["list", "dir", "glob", "list_root"]):
            k += 1
            fr = {"seed": 1400 + k, "nrows": 6, "cols": [{"name": "rid", "kind": "rid"}, {"name": "v0", "kind": "int64", "nulls": "none"},
                                                         {"name": "v1", "kind": "str", "nulls": "none"}], "index": None}
            files = []
            for j in range(4):
                f = copy.deepcopy(fr)
                f["seed"] += 100 * j
                f["rid0"] = 6 * j
                files.append({"frame": f, "compression": None, "rel": "f%02d.parquet" % j})
            cases.append({"id": "FL/%d/%s" % (d, route), "frame": fr, "opts": {"has_nulls": True, "row_group_offsets": None}, "files": files,
                          "layout": "flat", "route": route, "mismatch": None, "pad": {"file": 2, "delta": d}})
    # --- an explicit root above the files' common directory (the top-level partition has a single value)
    for li, (layout, dirs) in enumerate([("hive2", ["a=1/b=x", "a=1/b=y", "a=1/b=x"]), ("hive", ["a=7", "a=7"]), ("drill", ["eu", "eu", "eu"]),
                                         ("hive2", ["a=0/b=x", "a=0/b=x"])]):
        for route in ("merge_root", "list_root", "dir"):
            k += 1
            files = []
            for j, dname in enumerate(dirs):
                f = {"seed": 1500 + 11 * k + j, "nrows": 5 + j, "rid0": 10 * j, "index": None,
                     "cols": [{"name": "rid", "kind": "rid"}, {"name": "v0", "kind": "int64", "nulls": "none"}]}
                files.append({"frame": f, "compression": None, "rel": dname + "/f%02d.parquet" % j})
            cases.append({"id": "MR/%d/%s/%s" % (li, layout, route), "frame": files[0]["frame"], "opts": {"has_nulls": True, "row_group_offsets": None},
                          "files": files, "layout": layout, "route": route, "mismatch": None})
    # --- pieces given as handles the caller keeps (2..4 files: the per-file footer path and the concurrent one)
    for nf in (2, 3, 4):
        for route in ("list_pf", "merge_pf"):
            for layout, dirs in (("flat", [""] * nf), ("hive", ["a=%d" % (j % 2) for j in range(nf)])):
                k += 1
                files = []
                for j in range(nf):
                    f = {"seed": 1600 + 13 * k + j, "nrows": 4 + j, "rid0": 10 * j, "index": None,
                         "cols": [{"name": "rid", "kind": "rid"}, {"name": "v0", "kind": "float64", "nulls": "p20"}]}
                    files.append({"frame": f, "compression": None, "rel": (dirs[j] + "/" if dirs[j] else "") + "f%02d.parquet" % j})
                cases.append({"id": "PH/%d/%s/%s" % (nf, layout, route), "frame": files[0]["frame"], "opts": {"has_nulls": True, "row_group_offsets": None},
                              "files": files, "layout": layout, "route": route, "mismatch": None})
    # --- files of different writers in one list (this library's and another's): each row group must be decoded for what it is
    for nf, pos in ((2, 1), (2, 0), (3, 2), (3, 1), (4, 3)):
        for route in ("list", "dir", "glob"):      # (merge verifies the schemas, which two writers spell differently: a refusal)
            k += 1
            files = []
            for j in range(nf):
                f = {"seed": 1650 + 13 * k + j, "nrows": 40 + 3 * j, "rid0": 100 * j, "index": None,
                     "cols": [{"name": "rid", "kind": "rid"}, {"name": "v0", "kind": "int64", "nulls": "none", "vals": "small"}]}
                files.append({"frame": f, "compression": None, "rel": "f%02d.parquet" % j, "foreign": j == pos})
            cases.append({"id": "MW/%d/%d/%s" % (nf, pos, route), "frame": files[0]["frame"], "opts": {"has_nulls": True, "row_group_offsets": None},
                          "files": files, "layout": "flat", "route": route, "mismatch": None, "mixed_writers": True})
    # --- category counts that differ between files (a growing vocabulary: each file's labels are a prefix of the next one's)
    for counts in ([(3, 150), (9, 150), (90, 140), (100, 150), (127, 128), (5, 40, 300), (99, 100, 130)] if tier == "quick" else
                   [(a, b) for a in (1, 2, 3, 9, 10, 90, 99, 100, 127, 128) for b in (128, 129, 140, 150, 256, 257, 1000) if a < b] + [(5, 40, 300), (99, 100, 130)]):
        for route in ("list", "dir", "merge", "merge_pf"):
            k += 1
            files = []
            rid0 = 0
            for j, nc in enumerate(counts):
                f = {"seed": 1700 + k * 7 + j, "nrows": 80 + 3 * nc, "rid0": rid0, "index": None,
                     "cols": [{"name": "rid", "kind": "rid"}, {"name": "c", "kind": "cat_many", "nulls": "none", "ncat": nc}, {"name": "v", "kind": "float64", "nulls": "p20"}]}
                rid0 += f["nrows"]
                files.append({"frame": f, "compression": None, "rel": "f%02d.parquet" % j})
            cases.append({"id": "CT/%s/%s" % ("-".join(map(str, counts)), route), "frame": files[0]["frame"], "opts": {"has_nulls": True, "row_group_offsets": None},
                          "files": files, "layout": "flat", "route": route, "mismatch": None, "growing_vocabulary": True})
    # --- files named relative to the working directory
    for i, (k_, form) in enumerate(itertools.product([1, 2, 3, 5], ["plain", "dot", "up"])):
        cases.append({"id": "RP/%s/%d" % (form, k_), "relative_paths": True, "k": k_, "form": form, "frame": {"cols": []}, "opts": {}, "files": [], "layout": "flat", "mismatch": None})
    # --- multi-file (hive) datasets under one root, opened as one dataset by their directories, by handles, or merged from handles
    for i in range(18 if tier == "quick" else 240):
        cases.append({"id": "SD/%d/%d" % (seed, i), "sub_datasets": True, "route": ["dirs", "handles", "merge_handles"][i % 3], "nsub": 2 + (i // 3) % 2,
                      "partitioned": bool((i // 6) % 2), "seed": 1470 + 17 * seed + i, "frame": {"cols": []}, "opts": {}, "files": [], "layout": "sub", "mismatch": None})
    return cases


def run_sub_datasets(case):
    """Several multi-file (hive) datasets under one root opened as one: by their directory paths, by handles, merged from handles.
    The rows must be those of the sub-datasets, one after the other."""
    import pandas as pd
    import fastparquet
    from fastparquet import writer as W
    from vf.props import common as C
    root = C.fresh_path("")
    os.makedirs(root)
    counters = {}
    res = {"features": [], "nontrivial": False, "failures": [], "counters": counters}
    rng = np.random.default_rng([case["seed"], 14])
    try:
        dirs, want = [], []
        rid = 0
        for j in range(case["nsub"]):
            n = int(rng.integers(3, 14))
            df = pd.DataFrame({"rid": np.arange(rid, rid + n, dtype="int64"), "v": rng.standard_normal(n), "k": np.array(["a", "b"], dtype=object)[np.arange(n) % 2]})
            rid += n
            d = os.path.join(root, "sub%d" % j)
            kw = {"file_scheme": "hive", "row_group_offsets": int(rng.integers(2, 6))}
            if case["partitioned"]:
                kw["partition_on"] = ["k"]
            fastparquet.write(d, df, **kw)
            dirs.append(d)
            # (a partitioned write stores the rows key by key within each chunk)
            want += fastparquet.ParquetFile(d).to_pandas(columns=["rid"], index=False)["rid"].tolist()
        ctx = {"route": case["route"], "n_sub_datasets": case["nsub"], "partitioned": case["partitioned"]}
        try:
            if case["route"] == "dirs":
                pf = fastparquet.ParquetFile(dirs)
            elif case["route"] == "handles":
                pf = fastparquet.ParquetFile([fastparquet.ParquetFile(d) for d in dirs])
            else:
                pf = W.merge([fastparquet.ParquetFile(d) for d in dirs])
                pf = fastparquet.ParquetFile(root)
            got = pf.to_pandas(columns=["rid"], index=False)["rid"].tolist()
            cnt = int(pf.count())
        except Exception as e:
            res["failures"].append({"kind": "open_or_read_raised", **ctx, **C.exc_shape(e)})
        else:
            if [int(x) for x in got] != [int(x) for x in want] or cnt != len(want):
                res["failures"].append({"kind": "rows_differ_from_concatenation", "expected_n": len(want), "got_n": len(got), "count": cnt,
                                        "first_diff": next((i for i, (a, b) in enumerate(zip(got, want)) if a != b), None), **ctx})
            counters["sub_dataset_opens_compared"] = 1
            counters["opens_compared"] = 1
        res["outcome"] = "ok"
        res["nontrivial"] = True
        res["features"] = [str(("sub_datasets", case["route"], case["nsub"], case["partitioned"]))]
        return res
    finally:
        C.cleanup(root)


def run_relative_paths(case):
    """k files named by paths relative to the working directory (what glob.glob('*.parquet') gives)."""
    import pandas as pd
    import fastparquet
    from vf.props import common as C
    root = C.fresh_path("")
    os.makedirs(os.path.join(root, "data"))
    counters = {}
    res = {"features": [], "nontrivial": False, "failures": [], "counters": counters}
    cwd = os.getcwd()
    try:
        want, names = [], []
        for j in range(case["k"]):
            df = pd.DataFrame({"rid": np.arange(10 * j, 10 * j + 3 + j, dtype="int64"), "s": np.array(["t%d" % j] * (3 + j), dtype=object)})
            fastparquet.write(os.path.join(root, "data", "f%02d.parquet" % j), df)
            want += df["rid"].tolist()
            names.append({"plain": "f%02d.parquet", "dot": "./f%02d.parquet", "up": "../data/f%02d.parquet"}[case["form"]] % j)
        os.chdir(os.path.join(root, "data"))
        ctx = {"route": "relative_paths", "form": case["form"], "n_files": case["k"]}
        try:
            pf = fastparquet.ParquetFile(names)
            got = pf.to_pandas(columns=["rid"], index=False)["rid"].tolist()
        except Exception as e:
            res["failures"].append({"kind": "open_or_read_raised", **ctx, **C.exc_shape(e)})
        else:
            if [int(x) for x in got] != want:
                res["failures"].append({"kind": "rows_differ_from_concatenation", "expected_n": len(want), "got_n": len(got), **ctx})
            counters["opens_by_relative_paths_compared"] = 1
            counters["opens_compared"] = 1
        res["outcome"] = "ok"
        res["nontrivial"] = True
        res["features"] = [str(("relative", case["form"], case["k"]))]
        return res
    finally:
        os.chdir(cwd)
        C.cleanup(root)


def run_case(case):
    if case.get("sub_datasets"):
        return run_sub_datasets(case)
    if case.get("relative_paths"):
        return run_relative_paths(case)
    import pandas as pd
    import fastparquet
    from fastparquet import writer as W
    from vf.props import common as C
    from vf.mon import tables as T
    from vf.mon import fsmon
    root = C.fresh_path("")
    os.makedirs(root)
    counters = {}
    res = {"features": [], "nontrivial": False, "failures": [], "counters": counters}
    try:
        frames = []
        paths = []
        label_change = False
        first = None
        for j, f in enumerate(case["files"]):
            df = D.build_dataset_frame({"frame": f["frame"], "opts": {}})
            fixed_text = None
            if case.get("mismatch") == "tz":
                df["when"] = pd.Timestamp("2021-03-04 05:06:07") + pd.to_timedelta(np.arange(len(df)), "h")
                if j == len(case["files"]) - 1:
                    df["when"] = df["when"].dt.tz_localize("UTC")
            elif case.get("mismatch") == "width":
                fw = np.empty(len(df), dtype=object)
                fw[:] = [("%04d" % x)[:2] for x in range(len(df))]
                df["fw"] = pd.Series(fw, dtype=object, index=df.index)      # (a plain assignment would make it a pandas-3 str column, for which fixed_text is not applied)
                fixed_text = {"fw": 4 if j == len(case["files"]) - 1 else 2}
            elif case.get("mismatch") and j == len(case["files"]) - 1:
                if case["mismatch"] == "renamed":
                    df = df.rename(columns={df.columns[-1]: "renamed_col"})
                elif case["mismatch"] == "dtype":
                    df["rid"] = df["rid"].astype("float64")
                else:
                    df["extra_col"] = 1.5
            p = os.path.join(root, f["rel"])
            os.makedirs(os.path.dirname(p), exist_ok=True)
            kw = {k: v for k, v in case["opts"].items() if k in ("has_nulls", "row_group_offsets", "stats")}
            # same on-disk types in every file: do not let 'infer' look at (possibly empty / all-null) data
            oe = {c["name"]: {"ostr": "utf8", "bytes": "bytes"}[c["kind"]] for c in f["frame"]["cols"] if c["kind"] in ("ostr", "bytes")}
            if oe:
                kw["object_encoding"] = dict({str(c): "infer" for c in df.columns}, **oe)
            if f.get("foreign"):
                # the same frame through the specification-level writer: OPTIONAL columns without nulls whose level blocks are two runs /
                # bit-packed, dictionary indices of width 8 in mixed runs, statistics with null_count 0 (what parquet-mr style writers emit)
                from vf.ref import writer as W_
                cols_ = [{"name": str(c_), "ptype": "INT64", "converted": None, "rows": [int(x) for x in df[c_].tolist()], "optional": True, "page_rows": [13, 20],
                          "use_dict": bool(i_ % 2), "idx_plan": "mixed", "min_index_width": 8, "write_stats": True, "def_plan": ["mixed", "bp"][i_ % 2]}
                         for i_, c_ in enumerate(df.columns)]
                data_, _ = W_.build_file({"codec": "UNCOMPRESSED", "columns": cols_, "row_groups": [len(df)], "created_by": "parquet-mr version 1.12.3 (build abc)"})
                with open(p, "wb") as fh_:
                    fh_.write(data_)
                counters["files_of_another_writer_in_the_set"] = counters.get("files_of_another_writer_in_the_set", 0) + 1
                if first is None:
                    first = df
                frames.append(df)
                paths.append(p)
                continue
            if fixed_text:
                kw["fixed_text"] = fixed_text
                kw["object_encoding"] = dict(kw.get("object_encoding") or {str(c): "infer" for c in df.columns}, fw="utf8")
            try:
                fastparquet.write(p, df, compression=f["compression"], **C.write_kwargs(kw))
            except Exception as e:
                res["outcome"] = "rejected"
                res["reject"] = C.exc_shape(e)
                return res
            if first is None:
                first = df
            else:
                for c in df.columns:
                    if c in first and isinstance(df[c].dtype, pd.CategoricalDtype) and isinstance(first[c].dtype, pd.CategoricalDtype) \
                            and list(df[c].cat.categories) != list(first[c].cat.categories):
                        label_change = True
            frames.append(df)
            paths.append(p)
        if case.get("pad"):
            import struct
            def foot_len(p_):
                with open(p_, "rb") as fh:
                    fh.seek(-8, 2)
                    return struct.unpack("<I", fh.read(4))[0]
            j = case["pad"]["file"]
            target = int(1.4 * foot_len(paths[0])) + case["pad"]["delta"]
            n_pad, hit = 0, False
            for _ in range(6):
                fastparquet.write(paths[j], frames[j], compression=case["files"][j]["compression"], custom_metadata={"pad": "x" * n_pad}, **C.write_kwargs(kw))
                cur = foot_len(paths[j])
                if cur == target:
                    hit = True
                    break
                n_pad = max(0, n_pad + (target - cur))
            counters["footer_lattice_points" if hit else "footer_lattice_missed"] = 1
            counters["footer_delta:%d" % case["pad"]["delta"]] = int(hit)
        k = len(paths)
        route = case["route"]
        layout = case["layout"]
        ctx = {"layout": layout, "route": route, "n_files": k, "label_change": label_change, "mismatch": case.get("mismatch"),
               "rels": [f["rel"] for f in case["files"]], "rows": [len(f) for f in frames]}
        # ---------------- schema verification clause
        if case.get("mismatch"):
            for how in ("ParquetFile(verify=True)", "merge(verify_schema=True)"):
                try:
                    if how.startswith("Parquet"):
                        fastparquet.ParquetFile(paths, verify=True)
                    else:
                        W.merge(paths, verify_schema=True)
                    res["failures"].append({"kind": "schema_mismatch_accepted", "how": how, **ctx})
                except Exception as e:
                    counters["mismatch_rejected"] = counters.get("mismatch_rejected", 0) + 1
                    counters["mismatch_rejected:" + case["mismatch"]] = counters.get("mismatch_rejected:" + case["mismatch"], 0) + 1
                    if not isinstance(e, Exception):
                        res["failures"].append({"kind": "schema_mismatch_non_exception", "how": how, **ctx})
            res["outcome"] = "ok"
            res["nontrivial"] = True
            res["features"] = ["mismatch", case["mismatch"], layout]
            res["sample"] = ctx
            return res
        # ---------------- open
        order = list(range(k))
        meta_snap = None
        with fsmon.Audit(root) as aud:
            try:
                if route == "list":
                    pf = fastparquet.ParquetFile(paths)
                elif route == "list_root":
                    pf = fastparquet.ParquetFile(paths, root=root)
                elif route == "dir":
                    pf = fastparquet.ParquetFile(root)
                    order = sorted(range(k), key=lambda j: paths[j])
                elif route == "glob":
                    pat = root + ("/*.parquet" if layout == "flat" else "/*/*.parquet" if layout in ("hive", "drill") else "/*/*/*.parquet")
                    pf = fastparquet.ParquetFile(pat)
                    order = sorted(range(k), key=lambda j: paths[j])
                elif route == "merge_root":
                    pf = W.merge(paths, root=root)
                    if not os.path.exists(os.path.join(root, "_metadata")):
                        res["failures"].append({"kind": "merge_with_root_did_not_write_metadata_in_root", **ctx})
                    counters["merge_with_root"] = counters.get("merge_with_root", 0) + 1
                elif route == "merge":
                    pf = W.merge(paths)
                    pf = fastparquet.ParquetFile(root) if os.path.exists(os.path.join(root, "_metadata")) else pf
                else:
                    pfs = [fastparquet.ParquetFile(p) for p in paths]
                    meta_snap = [bytes(x.fmd.to_bytes()) for x in pfs]
                    pf = W.merge(pfs) if route == "merge_pf" else fastparquet.ParquetFile(pfs)
                    after = [bytes(x.fmd.to_bytes()) for x in pfs]
                    if after != meta_snap:
                        # observed and reported as a note only: the statement does not promise that merge() leaves the handles
                        # it is given untouched (consolidate_categories rewrites the shared pandas key-value in place)
                        counters["note_merge_mutated_input_handle_metadata"] = counters.get("note_merge_mutated_input_handle_metadata", 0) + 1
                    counters["handle_snapshots_compared"] = counters.get("handle_snapshots_compared", 0) + k
                got = pf.to_pandas(index=False)
                cnt = int(pf.count())
            except Exception as e:
                res["failures"].append({"kind": "open_or_read_raised", **ctx, **C.exc_shape(e)})
                res["outcome"] = "ok"
                res["nontrivial"] = True
                res["features"] = [layout, k, route]
                return res
        if route in ("merge_pf", "list_pf"):
            # the caller's handles of the pieces stay usable: handles derived from them afterwards (pickle, slice) still read their own
            # file, and a second dataset opened from such derived handles is the same concatenation
            import pickle
            for j, h in enumerate(pfs):
                for how in ("pickle", "slice"):
                    try:
                        h2 = pickle.loads(pickle.dumps(h)) if how == "pickle" else h[0:]
                        r2 = [int(x) for x in h2.to_pandas(columns=["rid"], index=False)["rid"].tolist()]
                    except Exception as e:
                        res["failures"].append({"kind": "piece_handle_unusable_after_open_or_merge", "derived_by": how, "file": j, **ctx, **C.exc_shape(e)})
                        continue
                    if r2 != [int(x) for x in frames[j]["rid"].tolist()]:
                        res["failures"].append({"kind": "piece_handle_reads_other_rows_after_open_or_merge", "derived_by": how, "file": j, **ctx})
                    counters["piece_handles_rechecked"] = counters.get("piece_handles_rechecked", 0) + 1
            try:
                again = fastparquet.ParquetFile([pickle.loads(pickle.dumps(h)) for h in pfs])
                r3 = [int(x) for x in again.to_pandas(columns=["rid"], index=False)["rid"].tolist()]
                if r3 != [int(x) for x in got["rid"].tolist()]:
                    res["failures"].append({"kind": "second_open_of_the_same_pieces_differs", "first_n": len(got), "second_n": len(r3), **ctx})
                counters["second_opens_from_derived_handles"] = counters.get("second_opens_from_derived_handles", 0) + 1
            except Exception as e:
                res["failures"].append({"kind": "second_open_of_the_same_pieces_raised", **ctx, **C.exc_shape(e)})
        if route in ("merge", "merge_pf", "merge_root"):
            for ev in aud.events:
                if ev[0] == "open" and fsmon.is_write_mode(ev[2]) and os.path.basename(ev[1]) not in ("_metadata", "_common_metadata"):
                    res["failures"].append({"kind": "merge_wrote_other_file", "file": os.path.relpath(ev[1], root), **ctx})
                if ev[0] in ("rename", "remove", "truncate"):
                    res["failures"].append({"kind": "merge_" + ev[0], "file": os.path.relpath(ev[1], root), **ctx})
            counters["merge_audit_events"] = counters.get("merge_audit_events", 0) + len(aud.events)
        # ---------------- expected concatenation
        exp_frames = []
        for j in order:
            e = frames[j].reset_index() if frames[j].index.name else frames[j].copy()
            exp_frames.append(e)
        exp_rids = [int(r) for e in exp_frames for r in e["rid"].tolist()]
        grids = [int(x) for x in got["rid"].tolist()] if "rid" in got else []
        total = sum(len(e) for e in exp_frames)
        if cnt != total:
            res["failures"].append({"kind": "count_differs", "expected": total, "got": cnt, **ctx})
        if grids != exp_rids:
            res["failures"].append({"kind": "rows_not_concatenation_in_order", "expected_n": len(exp_rids), "got_n": len(grids),
                                    "same_multiset": sorted(grids) == sorted(exp_rids), **ctx})
        elif grids:
            gpos = {r: i for i, r in enumerate(grids)}
            for j, e in zip(order, exp_frames):
                if not len(e):
                    continue
                sub = got.iloc[[gpos[int(r)] for r in e["rid"].tolist()]].reset_index(drop=True)
                for c in e.columns:
                    if c not in sub.columns:
                        res["failures"].append({"kind": "column_missing", "column": str(c), **ctx})
                        continue
                    fl = T.compare_series(c, e[c].reset_index(drop=True), sub[c], check_dtype=False, cat_strict=False)
                    for f in fl:
                        f.update(ctx)
                        f["col_dtype"] = str(e[c].dtype)
                        f["file"] = j
                    res["failures"] += fl
                # partition columns from directory names
                rel = case["files"][j]["rel"]
                dparts = rel.split("/")[:-1]
                if route not in ("dir", "list_root", "merge_root"):
                    # root is inferred as the longest common directory prefix: levels shared by every file are (documentedly)
                    # not seen as partitions
                    alld = [f_["rel"].split("/")[:-1] for f_ in case["files"]]
                    ncommon = 0
                    while all(len(d_) > ncommon for d_ in alld) and len({d_[ncommon] for d_ in alld}) == 1:
                        ncommon += 1
                    dparts = dparts[ncommon:]
                    if layout == "drill" and ncommon:
                        dparts = []
                if layout in ("hive", "hive2"):
                    for dp in dparts:
                        name, val = dp.split("=")
                        if name not in sub.columns:
                            res["failures"].append({"kind": "partition_column_not_inferred", "column": name, "got_columns": [str(c) for c in got.columns], **ctx})
                        else:
                            vals = set(str(x) for x in sub[name].astype(object).tolist())
                            if vals != {val}:
                                res["failures"].append({"kind": "partition_value_wrong", "column": name, "expected": val, "got": sorted(vals)[:4], **ctx})
                            counters["partition_values_checked"] = counters.get("partition_values_checked", 0) + 1
                elif layout == "drill" and dparts:
                    if "dir0" not in sub.columns:
                        res["failures"].append({"kind": "partition_column_not_inferred", "column": "dir0", "got_columns": [str(c) for c in got.columns], **ctx})
                    else:
                        vals = set(str(x) for x in sub["dir0"].astype(object).tolist())
                        if vals != {dparts[0]}:
                            res["failures"].append({"kind": "partition_value_wrong", "column": "dir0", "expected": dparts[0], "got": sorted(vals)[:4], **ctx})
                        counters["partition_values_checked"] = counters.get("partition_values_checked", 0) + 1
            counters["cells_compared"] = counters.get("cells_compared", 0) + len(grids) * len(got.columns)
        counters["opens_compared"] = 1
        if case.get("prefix_named_dirs"):
            counters["opens_over_directories_named_with_a_common_prefix"] = 1
        if case.get("growing_vocabulary"):
            counters["growing_vocabulary_opens"] = 1
        counters["route:" + route] = 1
        counters["footer_path:" + ("new" if (k >= 3 and route in ("list", "list_root", "dir", "glob")) else "legacy")] = 1
        res["outcome"] = "ok"
        res["nontrivial"] = k >= 2 and total > 0
        res["features"] = [layout, k, route, any(len(f) == 0 for f in frames), label_change]
        res["sample"] = ctx
        return res
    finally:
        C.cleanup(root)


def required(tier):
    return {"opens_compared": 120, "route:list": 15, "route:dir": 15, "route:glob": 15, "route:merge": 15, "route:merge_pf": 15,
            "footer_path:new": 30, "footer_path:legacy": 30, "mismatch_rejected": 20, "partition_values_checked": 100, "footer_lattice_points": 30,
            "growing_vocabulary_opens": 20, "merge_with_root": 10, "piece_handles_rechecked": 40, "second_opens_from_derived_handles": 10, "mismatch_rejected:tz": 3, "mismatch_rejected:width": 3, "files_of_another_writer_in_the_set": 10, "opens_over_directories_named_with_a_common_prefix": 10, "sub_dataset_opens_compared": 6, "opens_by_relative_paths_compared": 8}
