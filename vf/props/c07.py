"""C07 - append adds rows at the end and leaves existing data untouched (DESIGN.md 5/C07)."""
import copy
import os
import struct

import numpy as np

ID = "C07"
LEVEL = "exploration"
FLAVOUR = "plain"
TECHNIQUE = "runtime monitor: sequential list model + byte-prefix hash of the single file + directory snapshot (size, sha256, inode) + audit-hook event log (no write-open/rename/remove/truncate of an existing data file) after every append"
RULE = ("seeded histories: initial write followed by 1..6 appends of schema-compatible frames (fresh values, nulls, category sets, "
        "row counts incl. 0, per-append row_group_offsets and codec) on simple / hive / drill datasets with and without partition_on "
        "and written index, re-opening between steps; non-trivial = >=1 append of >=1 row verified; distinct = distinct "
        "(scheme, partitioned, index, n appends, categorical label change, zero-row append) tuples")
ASSUMPTIONS = ["rows with a null partition key are dropped (documented)",
               "within one appended batch of a partitioned dataset the row order follows the group-by (compared as multiset per batch, batches in order)"]
CASE_TIMEOUT = 120

from vf.gen import datasets as D
from vf.gen import frames as F

KINDS = ["int32", "int64", "float64", "str", "ostr", "dt_ns", "dt_us", "cat_str", "cat_int", "Int64", "bool", "bytes", "dtz_ns",
         "td_us", "boolean", "uint16", "float32", "cat_str_ord", "dt_ms"]


def gen_cases(tier, seed):
    rng = np.random.default_rng([seed, 707])
    cases = []
    n = 220 if tier == "quick" else 4000
    for i in range(n):
        scheme = ["simple", "simple", "hive", "hive", "drill"][i % 5]
        base = D.random_dataset(rng, "H/%d/%d" % (seed, i), scheme=scheme, pkinds=D.BENIGN_PKINDS, value_kinds=KINDS, max_rows=60,
                                min_rows=0 if i % 11 == 0 else 1, max_cols=4, partition_nulls=(i % 7 == 0),
                                index_kinds=[None, None, {"kind": "int", "name": "myidx"}, {"kind": "str", "name": "sidx"}])
        base["opts"]["has_nulls"] = True
        k = int(rng.integers(1, 5 if tier == "quick" else 7))
        steps = []
        rid0 = base["frame"]["nrows"]
        for j in range(k):
            fr = copy.deepcopy(base["frame"])
            fr["seed"] = int(rng.integers(0, 2 ** 31))
            fr["nrows"] = int([0, 1, 5, 17, 40][int(rng.integers(0, 5))]) if rng.random() < 0.8 else int(rng.integers(0, 80))
            fr["rid0"] = rid0
            rid0 += fr["nrows"]
            for c in fr["cols"]:
                if c["kind"] in F.CAT_KINDS:
                    c["ncat"] = int([2, 5, 9, 12][int(rng.integers(0, 4))])
                    c["lshift"] = int(rng.integers(0, 6)) if rng.random() < 0.6 else 0
                    c["unused"] = int(rng.integers(0, 3))
                if "nulls" in c and F.nullable_kind(c["kind"]):
                    c["nulls"] = F.NULL_PATTERNS[int(rng.integers(0, len(F.NULL_PATTERNS)))]
                if (i + j) % 5 == 0 and c["kind"] in F.DT_KINDS + F.DTZ_KINDS and c["kind"].split("_")[1] in ("ns", "us", "ms"):
                    # the same instants in a COARSER resolution than the dataset's column (lossless): frames from another source
                    pre_, u_ = c["kind"].split("_")
                    c["kind"] = pre_ + "_" + {"ns": ["us", "ms", "s"], "us": ["ms", "s"], "ms": ["s"]}[u_][(i + j) % len({"ns": [1, 2, 3], "us": [1, 2], "ms": [1]}[u_])]
                    c["coarser_unit"] = True
            steps.append({"frame": fr, "row_group_offsets": [None, 3, 10, [0, 2]][int(rng.integers(0, 4))] if fr["nrows"] > 2 else None,
                          "compression": [None, "SNAPPY", "GZIP", "ZSTD"][int(rng.integers(0, 4))],
                          "reopen": bool(rng.integers(0, 2)),
                          # the same columns in another order: accepted by the library (it compares sorted names), must land by name
                          "column_order_seed": int(rng.integers(1, 2 ** 31)) if (i + j) % 4 == 0 else None})
        if i % 9 == 4:
            # a categorical whose vocabulary GROWS from batch to batch (each label list a prefix of the next): more categories than the
            # code width chosen for the first batch
            # (the growing column comes BEFORE another categorical whose vocabulary stays as it is)
            base["frame"]["cols"].insert(1, {"name": "cm", "kind": "cat_many", "nulls": "none", "ncat": 10})
            base["frame"]["cols"].append({"name": "ctag", "kind": "cat_many", "nulls": "none", "ncat": 3})
            for j, st in enumerate(steps):
                st["frame"]["cols"].insert(1, {"name": "cm", "kind": "cat_many", "nulls": "none", "ncat": [150, 300, 300, 700, 700, 700][min(j, 5)]})
                st["frame"]["cols"].append({"name": "ctag", "kind": "cat_many", "nulls": "none", "ncat": 3})
            base["growing_vocabulary"] = True
        if i % 6 == 2:
            # the dataset stores an UNNAMED row index (as column "index"); some appended frames come with a plain RangeIndex, whose
            # values then become that column (the library resets the index of every appended frame when the dataset stores one)
            base["frame"]["index"] = {"kind": "int"}
            for j, st in enumerate(steps):
                st["frame"]["index"] = None if j % 2 == 0 else {"kind": "int"}
            base["mixed_index_appends"] = True
        if i % 3 == 1 and not (scheme == "drill" and base["opts"].get("partition_on")):
            # (a drill-partitioned dataset names its key columns dirN: frames with the original names are refused either way)
            # the appends go through a handle the caller keeps across steps (re-opened only where the step says so)
            base["via_handle"] = True
        base["steps"] = steps
        cases.append(base)
    # --- datasets whose rows carry a two-level index, stored in batches that are slices of one frame (all batches share the levels of
    #     the index, each uses a part of their labels): the situation in which a multi-indexed dataset can be appended to
    for i in range(24 if tier == "quick" else 300):
        cases.append({"id": "MI/%d/%d" % (seed, i), "multi_index_batches": True, "level_kind": ["str", "int", "dt"][i % 3], "n": [9, 15, 60, 400][(i // 3) % 4],
                      "nbatch": 2 + i % 3, "scheme": ["simple", "hive"][(i // 2) % 2], "rgo": [None, 4][(i // 5) % 2], "via_handle": bool(i % 4 == 3),
                      "frame": {"cols": []}, "opts": {}})
    # --- an append made through a handle DERIVED from the dataset's handle (a slice of its row groups)
    for i in range(6 if tier == "quick" else 40):
        cases.append({"id": "SL/%d/%d" % (seed, i), "sliced_handle_append": True, "slice": [[0, 1], [1, 3], [0, 2]][i % 3], "partitioned": bool(i % 2),
                      "frame": {"cols": []}, "opts": {}})
    return cases


def footer_start(path):
    with open(path, "rb") as f:
        f.seek(-8, 2)
        n = struct.unpack("<I", f.read(4))[0]
        end = f.tell() + 4
    return end - 8 - n


def run_multi_index(case):
    """Batches that are consecutive slices of one (level x level) indexed frame: first write + appends, then the whole frame must read back,
    and the bytes written before each append must still be there."""
    import pandas as pd
    import fastparquet
    from fastparquet.writer import reset_row_idx
    from vf.props import common as C
    counters = {}
    res = {"features": [], "nontrivial": False, "failures": [], "counters": counters}
    scheme = case["scheme"]
    path = C.fresh_path(".parq" if scheme == "simple" else "")
    try:
        lv = {"str": ["s%d" % i for i in range(5)], "int": list(range(10, 15)), "dt": list(pd.to_datetime(["2024-01-0%d" % (i + 1) for i in range(5)]))}[case["level_kind"]]
        idx = pd.MultiIndex.from_product([lv, ["x", "y", "z"]], names=["a", "b"])
        n = case["n"]
        idx = idx[np.arange(n) % len(idx)]       # level-major order: a batch uses a few labels of the first level only
        df = pd.DataFrame({"rid": np.arange(n, dtype="int64"), "v": np.arange(n, dtype="float64") / 4}, index=idx)
        cuts = [round(j * n / case["nbatch"]) for j in range(case["nbatch"] + 1)]
        batches = [df.iloc[cuts[j]:cuts[j + 1]] for j in range(case["nbatch"])]
        ctx = {"scheme": scheme, "level_kind": case["level_kind"], "rows": n, "batches": [len(b) for b in batches], "via_handle": case["via_handle"]}
        kw = {"file_scheme": scheme, **({"row_group_offsets": case["rgo"]} if case["rgo"] else {})}
        fastparquet.write(path, batches[0], **kw)
        pf = fastparquet.ParquetFile(path) if case["via_handle"] and scheme != "simple" else None
        for j, b in enumerate(batches[1:]):
            before = {}
            if scheme == "simple":
                with open(path, "rb") as f:
                    before[path] = f.read()[:footer_start(path)]
            else:
                for nm in sorted(os.listdir(path)):
                    if nm.endswith(".parquet"):
                        with open(os.path.join(path, nm), "rb") as f:
                            before[os.path.join(path, nm)] = f.read()
            try:
                if pf is not None:
                    pf.write_row_groups(reset_row_idx(b), **({"row_group_offsets": case["rgo"]} if case["rgo"] else {}))
                else:
                    fastparquet.write(path, b, append=True, **kw)
            except Exception as e:
                res["failures"].append({"kind": "append_raised", "step": j + 1, **ctx, **C.exc_shape(e)})
                break
            for fn, old in before.items():
                with open(fn, "rb") as f:
                    if f.read()[:len(old)] != old:
                        res["failures"].append({"kind": "bytes_before_the_append_changed", "file": os.path.basename(fn), "step": j + 1, **ctx})
            whole = df.iloc[:cuts[j + 2]]
            try:
                got = fastparquet.ParquetFile(path).to_pandas()
            except Exception as e:
                res["failures"].append({"kind": "read_after_append_raised", "step": j + 1, **ctx, **C.exc_shape(e)})
                break
            g, e_ = got.reset_index(), whole.reset_index()
            if list(g.columns) != list(e_.columns) or len(g) != len(e_):
                res["failures"].append({"kind": "shape_after_append", "step": j + 1, "got": [list(map(str, g.columns)), len(g)], "expected": [list(map(str, e_.columns)), len(e_)], **ctx})
                break
            for c in e_.columns:
                gl, el = [str(x) for x in g[c].astype(object).tolist()], [str(x) for x in e_[c].astype(object).tolist()]
                if gl != el:
                    bad = [k_ for k_, (x, y) in enumerate(zip(gl, el)) if x != y]
                    res["failures"].append({"kind": "cells_after_append", "column": str(c), "step": j + 1, "n_bad": len(bad), "first_bad": bad[:4],
                                            "expected": [el[k_] for k_ in bad[:3]], "got": [gl[k_] for k_ in bad[:3]], **ctx})
            counters["appends_to_multi_indexed_datasets_verified"] = counters.get("appends_to_multi_indexed_datasets_verified", 0) + 1
            counters["appends_verified"] = counters.get("appends_verified", 0) + 1
        res["outcome"] = "ok"
        res["nontrivial"] = True
        res["features"] = [str(("multi_index", scheme, case["level_kind"], case["nbatch"], bool(case["rgo"]), case["via_handle"]))]
        return res
    finally:
        C.cleanup(path)


def run_sliced_handle(case):
    """pf[a:b].write_row_groups(df) on a multi-file dataset: the rows are added to the dataset, or the call is refused - the row groups
    outside the slice, and the files that hold them, are not the slice's to drop."""
    import pandas as pd
    import fastparquet
    from vf.props import common as C
    counters = {}
    res = {"features": [], "nontrivial": False, "failures": [], "counters": counters}
    path = C.fresh_path("")
    try:
        n = 12
        df = pd.DataFrame({"rid": np.arange(n, dtype="int64"), "v": np.arange(n) / 2.0, "p": np.array(["x", "y"], dtype=object)[np.arange(n) % 2]})
        kw = {"file_scheme": "hive", "row_group_offsets": 3}
        if case["partitioned"]:
            kw["partition_on"] = ["p"]
        fastparquet.write(path, df, **kw)
        before = {}
        for dp, _, fns in os.walk(path):
            for fn in fns:
                if fn.endswith(".parquet"):
                    with open(os.path.join(dp, fn), "rb") as f:
                        before[os.path.relpath(os.path.join(dp, fn), path)] = f.read()
        new = pd.DataFrame({"rid": np.arange(100, 104, dtype="int64"), "v": np.arange(4) / 4.0, "p": np.array(["x", "y", "x", "y"], dtype=object)})
        a, b = case["slice"]
        ctx = {"slice": case["slice"], "partitioned": case["partitioned"], "row_groups": len(fastparquet.ParquetFile(path).row_groups)}
        refused = None
        try:
            fastparquet.ParquetFile(path)[a:b].write_row_groups(new)
        except Exception as e:
            refused = C.exc_shape(e)
            counters["appends_through_a_sliced_handle_refused"] = 1
        changed = []
        for rel, old in before.items():
            fp_ = os.path.join(path, rel)
            if not os.path.exists(fp_):
                changed.append(rel + " (gone)")
            else:
                with open(fp_, "rb") as f:
                    if f.read() != old:
                        changed.append(rel)
        if changed:
            res["failures"].append({"kind": "existing_data_files_changed_by_append_through_sliced_handle", "files": changed[:4], "refused": refused, **ctx})
        try:
            got = sorted(int(x) for x in fastparquet.ParquetFile(path).to_pandas(columns=["rid"], index=False)["rid"].tolist())
        except Exception as e:
            res["failures"].append({"kind": "dataset_unreadable_after_append_through_sliced_handle", "refused": refused, **ctx, **C.exc_shape(e)})
        else:
            want = sorted(df["rid"].tolist() + ([] if refused else new["rid"].tolist()))
            if got != want:
                res["failures"].append({"kind": "rows_lost_by_append_through_sliced_handle", "missing": sorted(set(want) - set(got))[:8], "unexpected": sorted(set(got) - set(want))[:8],
                                        "refused": refused, **ctx})
        counters["appends_through_a_sliced_handle_checked"] = 1
        res["outcome"] = "ok"
        res["nontrivial"] = True
        res["features"] = [str(("sliced_handle", tuple(case["slice"]), case["partitioned"]))]
        return res
    finally:
        C.cleanup(path)


def run_case(case):
    if case.get("multi_index_batches"):
        return run_multi_index(case)
    if case.get("sliced_handle_append"):
        return run_sliced_handle(case)
    import hashlib
    import pandas as pd
    import fastparquet
    from vf.props import common as C
    from vf.mon import tables as T
    from vf.mon import fsmon
    opts = case["opts"]
    scheme = opts.get("file_scheme", "simple")
    pcols = opts.get("partition_on") or []
    path = C.fresh_path(".parq" if scheme == "simple" else "")
    counters = {}
    res = {"features": [], "nontrivial": False, "failures": [], "counters": counters}
    try:
        df0 = D.build_dataset_frame(case)
        with C.writer_globals(case.get("page_size"), case.get("dpv")):
            try:
                fastparquet.write(path, df0, **C.write_kwargs(opts))
            except Exception as e:
                res["outcome"] = "rejected"
                res["reject"] = C.exc_shape(e)
                counters["initial_write_rejected"] = 1
                return res
        written_index = not isinstance(df0.index, pd.RangeIndex)
        batches = [df0]
        kept = [None]
        label_change = False
        zero_append = False
        verified = 0
        ctx = {"scheme": scheme, "partition_on": pcols, "index": (case["frame"].get("index") or {}).get("kind"),
               "allnull_object_cols_initially": [str(c) for c in df0.columns if df0[c].dtype == object and (len(df0) == 0 or df0[c].isna().all())]}
        for si, st in enumerate(case["steps"]):
            dfk = D.build_dataset_frame({"frame": st["frame"], "opts": opts})
            if st.get("column_order_seed"):
                perm = np.random.default_rng(st["column_order_seed"]).permutation(len(dfk.columns))
                dfk = dfk[[dfk.columns[i_] for i_ in perm]]
                counters["appends_with_reordered_columns"] = counters.get("appends_with_reordered_columns", 0) + 1
            for c in dfk.columns:
                if isinstance(dfk[c].dtype, pd.CategoricalDtype) and list(dfk[c].cat.categories) != list(df0[c].cat.categories):
                    label_change = True
            zero_append = zero_append or len(dfk) == 0
            before = fsmon.snapshot(path)
            if scheme == "simple":
                fs0 = footer_start(path)
                with open(path, "rb") as f:
                    prefix_hash = hashlib.sha256(f.read(fs0)).hexdigest()
            kw = dict(file_scheme=scheme, append=True, compression=st["compression"])
            if st["row_group_offsets"] is not None:
                kw["row_group_offsets"] = st["row_group_offsets"]
            if pcols:
                kw["partition_on"] = pcols
            with fsmon.Audit(path) as aud:
                try:
                    if case.get("via_handle"):
                        from fastparquet.writer import reset_row_idx
                        if kept[0] is None or st.get("reopen"):
                            kept[0] = fastparquet.ParquetFile(path)
                        else:
                            counters["appends_through_a_kept_handle"] = counters.get("appends_through_a_kept_handle", 0) + 1
                        data_ = reset_row_idx(dfk) if kept[0]._get_index() else dfk
                        kept[0].write_row_groups(data_, st["row_group_offsets"], compression=st["compression"])
                    else:
                        fastparquet.write(path, dfk, **kw)
                    err = None
                except Exception as e:
                    err = e
            step_ctx = dict(ctx, step=si, append_rows=len(dfk), existing_rows=sum(len(b) for b in batches))
            if err is not None:
                # what the refusal may hinge on: data files present before the append; rows of the batch that carry every partition key
                step_ctx["existing_data_files"] = sum(1 for rel in before if not fsmon.is_meta(rel))
                step_ctx["batch_rows_with_all_keys"] = int(len(dfk[pcols].dropna())) if pcols else len(dfk)
                res["failures"].append({"kind": "append_raised", **step_ctx, **C.exc_shape(err)})
                break
            batches.append(dfk)
            counters["appends"] = counters.get("appends", 0) + 1
            if any(c_.get("coarser_unit") for c_ in st["frame"]["cols"]):
                counters["appends_with_a_coarser_time_unit"] = counters.get("appends_with_a_coarser_time_unit", 0) + 1
            # ---- existing data untouched
            after = fsmon.snapshot(path)
            if scheme == "simple":
                with open(path, "rb") as f:
                    h = hashlib.sha256(f.read(fs0)).hexdigest()
                if h != prefix_hash:
                    res["failures"].append({"kind": "existing_row_group_bytes_changed", **step_ctx})
                counters["prefix_hashes_compared"] = counters.get("prefix_hashes_compared", 0) + 1
            else:
                for rel, meta in before.items():
                    if fsmon.is_meta(rel):
                        continue
                    if rel not in after:
                        res["failures"].append({"kind": "existing_data_file_removed", "file": rel, **step_ctx})
                    elif after[rel] != meta:
                        res["failures"].append({"kind": "existing_data_file_changed", "file": rel,
                                                "what": [a != b for a, b in zip(after[rel], meta)], **step_ctx})
                counters["data_files_compared"] = counters.get("data_files_compared", 0) + sum(1 for r in before if not fsmon.is_meta(r))
                old = {os.path.join(os.path.abspath(path), rel) for rel in before if not fsmon.is_meta(rel)}
                for ev in aud.events:
                    if ev[0] == "open" and ev[1] in old and fsmon.is_write_mode(ev[2]):
                        res["failures"].append({"kind": "existing_data_file_opened_for_writing", "file": os.path.relpath(ev[1], path), "mode": ev[2], **step_ctx})
                    elif ev[0] == "rename" and (ev[1] in old or ev[2] in old):
                        res["failures"].append({"kind": "existing_data_file_renamed", "src": os.path.relpath(ev[1], path), "dst": os.path.relpath(ev[2], path), **step_ctx})
                    elif ev[0] in ("remove", "truncate") and ev[1] in old:
                        res["failures"].append({"kind": "existing_data_file_" + ev[0], "file": os.path.relpath(ev[1], path), **step_ctx})
                counters["audit_events"] = counters.get("audit_events", 0) + len(aud.events)
            # ---- content = batches in order
            try:
                pf = fastparquet.ParquetFile(path)
                got = pf.to_pandas(index=False)
            except Exception as e:
                res["failures"].append({"kind": "read_after_append_raised", **step_ctx, **C.exc_shape(e)})
                break
            if case.get("via_handle") and kept[0] is not None:
                # the handle that made the append reads what a fresh open reads
                try:
                    got_k = kept[0].to_pandas(index=False)
                except Exception as e:
                    res["failures"].append({"kind": "read_through_the_appending_handle_raised", **step_ctx, **C.exc_shape(e)})
                else:
                    fl = T.same_table(got, got_k, check_index=False, cat_strict=False) if list(got.columns) == list(got_k.columns) \
                        else [{"kind": "columns_differ", "fresh": [str(c) for c in got.columns], "appending_handle": [str(c) for c in got_k.columns]}]
                    for f in fl:
                        f.update(step_ctx)
                        f["kind"] = "appending_handle_reads_differently_from_fresh_open:" + f["kind"]
                    res["failures"] += fl
                    counters["reads_through_the_appending_handle"] = counters.get("reads_through_the_appending_handle", 0) + 1
            exp_batches = []
            for b in batches:
                e = b.reset_index() if written_index else b
                if pcols:
                    e = e.dropna(subset=pcols)
                exp_batches.append(e)
            exp_rids = [r for e in exp_batches for r in e["rid"].tolist()]
            grids = [int(x) for x in got["rid"].tolist()] if "rid" in got else []
            bid = {}
            for bi, e in enumerate(exp_batches):
                for r in e["rid"].tolist():
                    bid[int(r)] = bi
            if sorted(grids) != sorted(exp_rids):
                res["failures"].append({"kind": "rows_after_append_differ", "expected": len(exp_rids), "got": len(grids),
                                        "missing": len(set(exp_rids) - set(grids)), "extra": len(set(grids) - set(exp_rids)),
                                        "dup": len(grids) - len(set(grids)), **step_ctx})
            else:
                seq = [bid[r] for r in grids]
                if seq != sorted(seq):
                    res["failures"].append({"kind": "appended_rows_not_at_end", **step_ctx})
                if not pcols and grids != exp_rids:
                    res["failures"].append({"kind": "row_order_changed", **step_ctx})
                expc = pd.concat([e.astype(object) for e in exp_batches], ignore_index=True) if len(exp_batches) > 1 else exp_batches[0].reset_index(drop=True)
                # compare cell values by rid, column by column, against each batch separately (dtypes kept per batch)
                gpos = {r: i for i, r in enumerate(grids)}
                for e in exp_batches:
                    if not len(e):
                        continue
                    sub = got.iloc[[gpos[int(r)] for r in e["rid"].tolist()]].reset_index(drop=True)
                    for c in e.columns:
                        if c in pcols:
                            continue
                        if c not in sub.columns:
                            res["failures"].append({"kind": "column_missing_after_append", "column": str(c), **step_ctx})
                            continue
                        fl = T.compare_series(c, e[c].reset_index(drop=True), sub[c], check_dtype=False, cat_strict=False)
                        for f in fl:
                            f.update(step_ctx)
                            f["col_dtype"] = str(e[c].dtype)
                            f["label_change"] = label_change
                        res["failures"] += fl
                counters["cells_compared"] = counters.get("cells_compared", 0) + len(grids) * len(got.columns)
            verified += 1 if len(dfk) else 0
            counters["appends_verified"] = counters.get("appends_verified", 0) + 1
        res["outcome"] = "ok"
        res["nontrivial"] = verified > 0
        res["features"] = [scheme, bool(pcols), ctx["index"], len(case["steps"]), label_change, zero_append]
        res["sample"] = {"scheme": scheme, "partition_on": pcols, "initial_rows": len(df0), "appends": [s["frame"]["nrows"] for s in case["steps"]],
                         "label_change": label_change}
        return res
    finally:
        C.cleanup(path)


def required(tier):
    return {"appends_verified": 300, "prefix_hashes_compared": 80, "data_files_compared": 300, "audit_events": 500, "appends_with_reordered_columns": 30, "appends_through_a_kept_handle": 30, "reads_through_the_appending_handle": 60, "appends_with_a_coarser_time_unit": 8, "appends_to_multi_indexed_datasets_verified": 20, "appends_through_a_sliced_handle_checked": 4}
