"""C12 - native code stays inside its buffers; the process never crashes (DESIGN.md 5/C12).

The case bodies of the C11 / C10 / C03 / C15 drivers, the readable well-formed files of /repo/test-data and a C01 smoke set are
executed under the ASan+UBSan shadow build of cencoding.c / speedups.c.  The deciding monitor is the sanitizer runtime: after every
case the worker reads what the runtime appended to its log, splits it into report blocks and keeps those with a frame in the two
extension modules.  Worker deaths are confirmed alone by the runner.
"""
import glob
import importlib
import os
import re

import numpy as np

ID = "C12"
LEVEL = "exploration"
FLAVOUR = "asan"
TECHNIQUE = ("sanitizers: AddressSanitizer + UndefinedBehaviorSanitizer build (clang 14) of the extension modules compiled from the working tree, "
             "driven by the C11 codec lattice, the C10 thrift generator (incl. multi-MB metadata), the C03/C15 foreign-file recipes, the "
             "well-formed third-party files of test-data and a writer-side smoke set; reports are read per case from the runtime's log, "
             "worker exits are journalled")
RULE = ("one evaluation = one driver case executed under the sanitised build; non-trivial = the case ran to its end (or to a Python exception) with "
        "the sanitizer log inspected; distinct = distinct (driver, case class) tuples; a report counts when one of its stack frames lies in "
        "cencoding.c or speedups.c; 'alignment' and implicit-conversion checks are off on purpose")
ASSUMPTIONS = ["the sanitizer runtime reports what it instruments: intra-object overflows and reads that stay inside a live allocation are invisible",
               "a canary (deliberate heap over-read through ctypes) must be reported in every worker, otherwise the run is inconclusive"]
CASE_TIMEOUT = 150
HANG_IS_VIOLATION = True
HANG_CONFIRM_FACTOR = 2

DRIVERS = {"c11": "C11", "c10": "C10", "c03": "C03", "c15": "C15", "c01": "C01"}
_state = {}


def _thin(cases, k, keep=lambda c: False):
    return [c for i, c in enumerate(cases) if i % k == 0 or keep(c)]


def gen_cases(tier, seed):
    out = []
    quick = tier == "quick"

    def add(drv, inner):
        out.append({"id": "%s:%s" % (drv, inner["id"]), "driver": drv, "driver_prop": DRIVERS.get(drv), "inner": inner})
    m = importlib.import_module
    for c in m("vf.props.c11").gen_cases("quick" if quick else "thorough", seed):
        add("c11", c)
    c10 = m("vf.props.c10").gen_cases("quick", seed)
    for c in (_thin(c10, 4, keep=lambda c: "big" in c) if quick else c10):
        add("c10", c)
    c03 = m("vf.props.c03").gen_cases("quick", seed)
    for c in (_thin(c03, 4) if quick else c03):
        add("c03", c)
    c15 = m("vf.props.c15").gen_cases("quick", seed)
    for c in (_thin(c15, 3) if quick else c15):
        add("c15", c)
    c01 = m("vf.props.c01").gen_cases("quick", seed)
    for c in _thin(c01, 40 if quick else 6):
        add("c01", c)
    if not quick:
        for c in _thin(m("vf.props.c03").gen_cases("thorough", seed), 9):
            if ("c03:" + c["id"]) not in {x["id"] for x in out}:
                add("c03", c)
        seen = {x["id"] for x in out}
        for c in _thin(m("vf.props.c15").gen_cases("thorough", seed), 6):
            if ("c15:" + c["id"]) not in seen:
                add("c15", c)
    from vf import REPO
    files = sorted(glob.glob(os.path.join(REPO, "test-data", "**", "*"), recursive=True))
    for p in files:
        if os.path.isfile(p) and (p.endswith((".parq", ".parquet")) or os.path.basename(p) in ("_metadata", "_common_metadata")):
            rel = os.path.relpath(p, REPO)
            out.append({"id": "corpus:" + rel, "driver": "corpus", "driver_prop": None, "inner": {"id": rel, "path": rel}})
    return out


# ----------------------------------------------------------------------------- sanitizer log

_ASAN_HEAD = re.compile(r"==\d+==ERROR: AddressSanitizer: (\S+)")
_UBSAN_HEAD = re.compile(r"^(\S+?):(\d+):(\d+): runtime error: (.*)$")
_FRAME = re.compile(r"^\s*#(\d+) 0x[0-9a-f]+ (?:in (\S+) )?(.*)$")
_SRC = re.compile(r"(\S+?\.(?:c|h|pyx)):(\d+)(?::\d+)?")


def _log_files():
    tag = os.environ.get("VF_SAN_TAG")
    if not tag:
        return []
    return sorted(glob.glob(tag + ".%d" % os.getpid()))


def _log_size():
    return {p: os.path.getsize(p) for p in _log_files()}


def _log_new(mark):
    txt = []
    for p in _log_files():
        with open(p, "rb") as f:
            f.seek(mark.get(p, 0))
            txt.append(f.read().decode("utf8", "replace"))
    return "".join(txt)


def split_reports(text):
    """Report blocks of an ASan/UBSan log -> list of dicts (san, what, access, size, frames[(fn, file, line)], ub_msg)."""
    reps = []
    cur = None
    for line in text.splitlines():
        ma = _ASAN_HEAD.search(line)
        mu = _UBSAN_HEAD.match(line.strip())
        if ma:
            cur = {"san": "asan", "what": ma.group(1), "frames": [], "access": None, "first_stack_done": False}
            reps.append(cur)
            continue
        if mu:
            cur = {"san": "ubsan", "what": _ub_class(mu.group(4)), "msg": mu.group(4)[:160], "frames": [], "access": None,
                   "src": (os.path.basename(mu.group(1)), int(mu.group(2))), "first_stack_done": False}
            reps.append(cur)
            continue
        if cur is None:
            continue
        s = line.strip()
        if cur["san"] == "asan" and cur["access"] is None:
            m = re.match(r"(READ|WRITE) of size (\d+)", s)
            if m:
                cur["access"] = m.group(1)
                cur["size"] = int(m.group(2))
                continue
        mf = _FRAME.match(line)
        if mf and not cur["first_stack_done"]:
            fn = mf.group(2)
            src = _SRC.search(mf.group(3))
            cur["frames"].append((fn, os.path.basename(src.group(1)) if src else None, int(src.group(2)) if src else None))
            continue
        if cur["frames"] and not mf:
            cur["first_stack_done"] = True     # only the faulting stack, not the allocation / free stacks
        if s.startswith("SUMMARY:"):
            cur = None
    return reps


def _ub_class(msg):
    for k, v in (("shift exponent", "shift-exponent"), ("left shift of", "shift-base"), ("signed integer overflow", "signed-integer-overflow"),
                 ("division by zero", "integer-divide-by-zero"), ("pointer", "pointer-overflow"), ("outside the range of representable", "float-cast-overflow"),
                 ("out of bounds", "bounds"), ("null pointer", "null"), ("negation of", "signed-integer-overflow"),
                 ("load of value", "invalid-enum-or-bool-load"), ("misaligned", "alignment")):
        if k in msg:
            return v
    return "other"


_pyxmap = {}


def pyx_line(cfile, cline):
    """Map a line of the generated C to the .pyx line named by the closest preceding Cython source marker."""
    from vf import REPO
    path = os.path.join(REPO, "fastparquet", cfile)
    if cfile not in _pyxmap:
        marks = []
        try:
            with open(path, errors="replace") as f:
                for i, l in enumerate(f, 1):
                    m = re.match(r'\s*/\* "fastparquet/(\w+\.pyx)":(\d+)', l)
                    if m:
                        marks.append((i, m.group(1), int(m.group(2))))
        except OSError:
            pass
        _pyxmap[cfile] = marks
    marks = _pyxmap[cfile]
    import bisect
    i = bisect.bisect_right(marks, (cline, "~", 0)) - 1
    if i < 0:
        return None, None
    return marks[i][1], marks[i][2]


_FN = re.compile(r"__pyx_(?:f|pf|pw|fuse_\d+__pyx_f|fuse_\d+__pyx_pf|fuse_\d+__pyx_pw)_\d+fastparquet_\d+(?:cencoding|speedups)_(?:\d+)?(\w+)")


def short_fn(fn):
    if not fn:
        return None
    m = _FN.search(fn)
    if m:
        return re.sub(r"^\d+", "", m.group(1))
    return fn


def native_reports(text):
    out = []
    other = 0
    for r in split_reports(text):
        inner = None
        for fn, fil, ln in r["frames"]:
            if fil in ("cencoding.c", "speedups.c"):
                inner = (fn, fil, ln)
                break
        if inner is None and r["san"] == "ubsan" and r.get("src", (None,))[0] in ("cencoding.c", "speedups.c"):
            inner = (None, r["src"][0], r["src"][1])
        if inner is None:
            other += 1
            continue
        pyx, pl = pyx_line(inner[1], inner[2])
        out.append({"san": r["san"], "what": r["what"], "access": r.get("access"), "size": r.get("size"), "msg": r.get("msg"),
                    "func": short_fn(inner[0]), "cfile": inner[1], "cline": inner[2], "pyx": pyx, "pyx_line": pl,
                    "via": [short_fn(f[0]) for f in r["frames"][:6] if f[0]]})
    return out, other


# ----------------------------------------------------------------------------- worker

def setup_worker():
    import ctypes
    assert os.environ.get("VF_FLAVOUR") == "asan"
    for drv in ("c15", "c01"):
        mod = importlib.import_module("vf.props." + drv)
        if hasattr(mod, "setup_worker"):
            mod.setup_worker()
    # canary: the runtime must report a deliberate heap over-read, in the log this worker reads
    mark = _log_size()
    libc = ctypes.CDLL(None)
    libc.malloc.restype = ctypes.c_void_p
    libc.free.argtypes = [ctypes.c_void_p]
    p = libc.malloc(8)
    d = ctypes.create_string_buffer(32)
    ctypes.memmove(d, p, 16)
    libc.free(p)
    reps = split_reports(_log_new(mark))
    _state["canary"] = int(any(r["what"] == "heap-buffer-overflow" for r in reps))
    _state["canary_reported"] = False


def _corpus_case(inner, res):
    import fastparquet
    from vf import REPO
    from vf.ref import reader as R
    path = os.path.join(REPO, inner["path"])
    try:
        info = R.read_file(path, data_dir=os.path.dirname(path))
        valid = info.meta is not None and not info.diags
    except Exception:
        valid = False
    res["counters"]["corpus_files"] = 1
    if not valid:
        res["outcome"] = "skip"
        res["counters"]["corpus_not_wellformed_for_reference_reader"] = 1
        return False
    try:
        pf = fastparquet.ParquetFile(path)
        pf.to_pandas()
        for df in pf.iter_row_groups():
            pass
        pf.count()
        res["counters"]["corpus_read_ok"] = 1
    except Exception as e:
        res["counters"]["corpus_read_raised"] = 1
        res["sample"] = {"exc": type(e).__name__}
    return True


def run_case(case):
    from vf import known
    counters = {}
    res = {"features": [], "nontrivial": False, "failures": [], "counters": counters, "outcome": "ok"}
    if not _state.get("canary_reported"):
        counters["canary_reports_seen"] = _state.get("canary", 0)
        counters["workers"] = 1
        _state["canary_reported"] = True
    drv = case["driver"]
    inner = case["inner"]
    mark = _log_size()
    ran = True
    if drv == "corpus":
        ran = _corpus_case(inner, res)
    else:
        mod = importlib.import_module("vf.props." + drv)
        r = mod.run_case(inner)
        counters["inner_cases:" + drv] = 1
        kf = _state.setdefault("kf", known.load())
        for fl in r.get("failures") or []:
            key = known.classify(case["driver_prop"], inner, fl, kf)
            if key:
                counters["inner_known:" + key] = counters.get("inner_known:" + key, 0) + 1
            else:
                # the same case body is silent (or known) on the plain build: a new failure here depends on the build / on heap contents
                res["failures"].append({"kind": "inner_oracle_failed_under_sanitised_build", "driver": drv, "inner_kind": fl.get("kind"),
                                        "inner_failure": {k: (v if isinstance(v, (int, float, str, bool, type(None))) else repr(v)[:200]) for k, v in fl.items()}})
        for k, v in (r.get("counters") or {}).items():
            if k in ("points", "evaluations", "values_compared", "rows_compared", "cells_compared", "roundtrips"):
                counters["inner:" + k] = counters.get("inner:" + k, 0) + v
    text = _log_new(mark)
    reps, other = native_reports(text)
    counters["sanitizer_report_blocks"] = len(reps) + other
    counters["sanitizer_reports_outside_extension"] = other
    seen = set()
    for rp in reps:
        sig = (rp["san"], rp["what"], rp["access"], rp["func"], rp["pyx_line"])
        if sig in seen:
            continue
        seen.add(sig)
        res["failures"].append({"kind": "sanitizer_report", "driver": drv, **rp, "n_in_case": sum(1 for x in reps if (x["san"], x["what"], x["access"], x["func"], x["pyx_line"]) == sig)})
    if any(rp["san"] == "asan" and rp.get("access") != "READ" for rp in reps) or "AddressSanitizer" in text and other and any(
            r_["san"] == "asan" and r_.get("access") != "READ" for r_ in split_reports(text)):
        res["restart_worker"] = True      # recover mode let a bad write proceed: the heap of this worker can no longer be trusted
        counters["workers_retired_after_bad_write"] = 1
    counters["log_inspected"] = 1
    res["nontrivial"] = ran
    res["features"] = [str((drv, _cls(drv, inner)))]
    return res


def _cls(drv, c):
    if drv == "c11":
        return (c.get("fn"), c.get("w"), c.get("item"), c.get("longval"))
    if drv == "c10":
        return (c.get("route"), c.get("root"), c.get("big"), c.get("long_form"))
    if drv == "c03":
        return tuple(str(c.get(k)) for k in ("type", "enc", "page_version", "codec", "nullable") if k in c) or c["id"].split("/")[:4]
    if drv == "c15":
        return (c.get("kind"), c.get("prim"), str(c.get("page_version")), c.get("use_dict"), c.get("long_rows"))
    if drv == "c01":
        return tuple(c["id"].split("/")[:3])
    return c.get("id")


def coverage_extra(agg):
    c = agg.counters()
    feats = set()
    sigs = {}
    for r in agg.results.values():
        feats.update(r.get("features") or [])
        for f in r.get("failures") or []:
            if f.get("kind") == "sanitizer_report":
                k = "%s/%s/%s/%s:%s" % (f["san"], f["what"], f.get("access"), f.get("func"), f.get("pyx_line"))
                sigs[k] = sigs.get(k, 0) + 1
    return {"distinct_nontrivial": len(feats), "cases_per_driver": {k.split(":")[1]: v for k, v in c.items() if k.startswith("inner_cases:")},
            "corpus_files_read": c.get("corpus_read_ok", 0), "distinct_native_report_signatures": sigs,
            "workers_with_live_canary": c.get("canary_reports_seen", 0), "workers": c.get("workers", 0)}


def finalize(agg):
    c = agg.counters()
    if c.get("canary_reports_seen", 0) < c.get("workers", 0):
        agg.inconclusive.append("the sanitizer canary was not reported in %d of %d workers" % (c.get("workers", 0) - c.get("canary_reports_seen", 0), c.get("workers", 0)))


def required(tier):
    return {"canary_reports_seen": 1, "log_inspected": 500, "inner_cases:c11": 200, "inner_cases:c10": 300, "inner_cases:c03": 150, "inner_cases:c15": 100,
            "inner_cases:c01": 50, "corpus_read_ok": 10}
