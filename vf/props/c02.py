"""C02 - written files are valid Parquet that an independent reader decodes identically (DESIGN.md 5/C02)."""
import json
import math
import os
import struct
import zlib

import numpy as np

ID = "C02"
LEVEL = "exploration"
FLAVOUR = "plain"
TECHNIQUE = "runtime monitor: independent spec-level Parquet reader/validator (vf/ref, no fastparquet code) applied to the bytes of every file a write produced; decoded table compared with the input frame under the nullability model"
RULE = ("the C01 lattice and random option tuples (independently seeded); every file under the target path is validated (magic, footer "
        "length, IDL-typed footer and page headers, page tiling, compressed/uncompressed sizes, value/null counts, offsets, encodings list, "
        "codec) and decoded; multi-file datasets additionally through _metadata (chunks resolved via file_path) and _common_metadata; "
        "non-trivial = >=1 page decoded and compared with the input; distinct = distinct (kinds, null patterns, row class, dpv, paging, "
        "has_nulls, codec class, scheme) tuples")
ASSUMPTIONS = ["vf/ref implements the Parquet format documents (calibrated on third-party files with ground truth in /repo/test-data)",
               "SNAPPY/ZSTD/LZ4/BROTLI are decompressed with cramjam, which the library under test also uses (a symmetric codec defect is invisible); GZIP with zlib",
               "a missing padding of the last bit-packed group is a note, not a violation (ecosystem readers tolerate it)"]
CASE_TIMEOUT = 120

from vf.gen import frames as F
from vf.props import c01


def gen_cases(tier, seed):
    cases = c01.gen_cases(tier, seed + 7919)
    if tier == "quick":
        # thin the single-column lattice (C01 already runs all of it); keep every random case
        lat = [c for c in cases if c["id"][0] in "LB"]
        rnd = [c for c in cases if c["id"][0] == "R"]
        cases = lat[::3] + rnd[:500]
    return cases


def setup_worker():
    pass


NAN = "nan"


def _f(v, w):
    if isinstance(v, float) and math.isnan(v) or (hasattr(v, "dtype") and np.isnan(v)):
        return ("f%d" % w, NAN)
    if w == 4:
        return ("f4", struct.unpack("<I", struct.pack("<f", float(v)))[0])
    return ("f8", struct.unpack("<Q", struct.pack("<d", float(v)))[0])


def expected_column(s, optional, times="int64"):
    """Expected logical cells (refpq canonical form) for series s stored as OPTIONAL (nulls -> None) or REQUIRED."""
    import pandas as pd
    dt = s.dtype
    n = len(s)
    isna = np.asarray(s.isna())
    out = []
    if isinstance(dt, pd.CategoricalDtype):
        labs, _ = expected_column(pd.Series(dt.categories), False)
        codes = np.asarray(s.cat.codes)
        for c in codes:
            out.append(None if c < 0 else labs[c])
        return out, "cat"
    if isinstance(dt, pd.DatetimeTZDtype) or getattr(dt, "kind", "") == "M":
        unit = dt.unit if isinstance(dt, pd.DatetimeTZDtype) else np.datetime_data(dt)[0]
        vals = (s.dt.tz_convert("UTC").dt.tz_localize(None) if isinstance(dt, pd.DatetimeTZDtype) else s).values.astype("M8[%s]" % unit).view("int64")
        if times == "int96":
            mult = {"s": 10 ** 9, "ms": 10 ** 6, "us": 10 ** 3, "ns": 1}[unit]
            return [None if (m and optional) else (("any",) if m else ("tns", int(v) * mult)) for v, m in zip(vals, isna)], "ts"
        su, mult = {"s": ("ms", 1000), "ms": ("ms", 1), "us": ("us", 1), "ns": ("ns", 1)}[unit]
        return [None if (m and optional) else (("t" + su, int(np.iinfo("int64").min)) if m else ("t" + su, int(v) * mult)) for v, m in zip(vals, isna)], "ts"
    if getattr(dt, "kind", "") == "m":
        unit = np.datetime_data(dt)[0]
        vals = s.values.view("int64")
        div = {"ns": 1000, "us": 1}[unit]
        return [None if (m and optional) else (("dus", int(np.iinfo("int64").min)) if m else ("dus", int(v) // div)) for v, m in zip(vals, isna)], "td"
    if isinstance(dt, pd.api.extensions.ExtensionDtype) and not isinstance(dt, pd.StringDtype):
        vals = s.to_numpy(dtype=object, na_value=None)
        if str(dt) == "boolean":
            return [None if m else ("b", bool(v)) for v, m in zip(vals, isna)], "masked"
        return [None if m else int(v) for v, m in zip(vals, isna)], "masked"
    k = getattr(dt, "kind", "O")
    if k == "b":
        return [("b", bool(v)) for v in s.values], "bool"
    if k in "iu":
        return [int(v) for v in s.values], "int"
    if k == "f":
        w = 4 if dt.itemsize == 4 else 8
        return [None if (m and optional) else _f(v, w) for v, m in zip(s.values, isna)], "float"
    # object / str
    vals = s.to_numpy(dtype=object, na_value=None)
    out = []
    for v, m in zip(vals, isna if len(isna) == len(vals) else [False] * len(vals)):
        if v is None or (isinstance(v, float) and math.isnan(v)):
            out.append(None)
        elif isinstance(v, str):
            out.append(("s", v))
        elif isinstance(v, (bytes, bytearray)):
            out.append(("y", bytes(v)))
        elif isinstance(v, (list, dict)):
            out.append(("json", v))
        elif isinstance(v, (bool, np.bool_)):
            out.append(("b", bool(v)))
        elif isinstance(v, (int, np.integer)):
            out.append(int(v))
        elif isinstance(v, (float, np.floating)):
            out.append(_f(v, 8))
        else:
            out.append(("?", repr(v)))
    return out, "object"


def cells_equal(e, g):
    if e == g:
        return True
    if e is None and g == ("json", "null"):
        return True    # a missing JSON cell in a REQUIRED column is stored as the JSON text null (a sentinel, not a NULL)
    if e is None or g is None:
        return False
    if isinstance(e, tuple) and e[0] == "any":
        return True
    if isinstance(e, tuple) and isinstance(g, tuple):
        if e[0] == "json" and g[0] in ("json", "s"):
            try:
                return json.loads(g[1]) == e[1]
            except Exception:
                return False
        if e[0] in ("f4", "f8") and g[0] == e[0] and e[1] == NAN:
            w = 4 if e[0] == "f4" else 8
            f = struct.unpack("<f", struct.pack("<I", g[1]))[0] if w == 4 else struct.unpack("<d", struct.pack("<Q", g[1]))[0]
            return math.isnan(f)
        if e[0] == "y" and g[0] == "s":
            return False
    if e is None and isinstance(g, tuple) and g == ("json", "null"):
        return True    # a missing JSON cell in a REQUIRED column is stored as the JSON text null (sentinel, not NULL)
        if e[0] == "s" and g[0] == "y":
            # text stored as plain BYTE_ARRAY (e.g. fixed / bytes encoding): compare bytes
            return e[1].encode("utf8") == g[1]
    return False


def validate_and_decode(path):
    from vf.ref import reader as R
    info = R.read_file(path)
    return info


def check_written(path, df, opts, res, counters, scheme, exp_override=None):
    """Validate every file under path and compare decoded content with df.  Returns number of pages decoded."""
    from vf.ref import reader as R
    import pandas as pd
    files = []
    if os.path.isdir(path):
        for d, dirs, fs in os.walk(path):
            for fn in fs:
                files.append(os.path.join(d, fn))
    else:
        files = [path]
    pages = 0
    infos = {}
    for fp in sorted(files):
        rel = os.path.relpath(fp, path) if os.path.isdir(path) else os.path.basename(fp)
        base = os.path.basename(fp)
        info = R.read_file(fp, data_dir=os.path.dirname(fp))
        infos[rel] = info
        for k, v in info.counts.items():
            counters["validated_" + k] = counters.get("validated_" + k, 0) + v
        pages += info.counts["pages"]
        for code, where, detail in info.diags:
            if code == "NUM_ROWS" and base == "_common_metadata":
                counters["note:COMMON_METADATA_NUM_ROWS"] = counters.get("note:COMMON_METADATA_NUM_ROWS", 0) + 1
                continue      # _common_metadata is a schema-only convenience file; its num_rows is not defined by the format
            res["failures"].append({"kind": "invalid_parquet", "code": code, "where": where, "detail": detail[:160], "file": rel,
                                    "file_kind": base if base.startswith("_") else "data"})
        for code, where, detail in info.notes:
            counters["note:" + code] = counters.get("note:" + code, 0) + 1
        if base == "_common_metadata" and (info.meta or {}).get("row_groups"):
            res["failures"].append({"kind": "invalid_parquet", "code": "COMMON_METADATA_HAS_ROW_GROUPS", "file": rel, "where": "file", "detail": ""})
    # schema agreement of summary files and parts
    if os.path.isdir(path) and "_metadata" in infos:
        def sig(i):
            return [(e.get("name"), e.get("type"), e.get("repetition_type"), e.get("converted_type"), e.get("num_children")) for e in (i.meta or {}).get("schema") or []]
        ms = sig(infos["_metadata"])
        for rel, i in infos.items():
            if i.meta is not None and sig(i) != ms:
                res["failures"].append({"kind": "invalid_parquet", "code": "SCHEMA_DISAGREES_WITH_METADATA", "file": rel, "where": "schema", "detail": ""})
    # decoded content vs input: through the file itself (simple) or through _metadata (multi-file)
    top = infos.get("_metadata") if os.path.isdir(path) else infos.get(os.path.basename(path))
    if top is None or top.meta is None:
        return pages
    if any(d[0] in ("MAGIC_TAIL", "FOOTER_LEN", "TRUNCATED") for d in top.diags):
        return pages
    exp = df
    wi = opts.get("write_index")
    if exp_override is not None:
        exp = exp_override
    elif wi is True or (wi is None and not isinstance(df.index, pd.RangeIndex)):
        exp = df.reset_index()
    cols = {".".join(k): v for k, v in top.columns.items()}
    if top.num_rows != len(exp):
        res["failures"].append({"kind": "decoded_row_count", "expected": len(exp), "got": top.num_rows})
        return pages
    for c in exp.columns:
        name = str(c)
        if name not in cols:
            res["failures"].append({"kind": "decoded_column_missing", "column": name, "have": sorted(cols)[:8]})
            continue
        col = cols[name]
        if any("unsupported" in ch for ch in col.chunks):
            counters["columns_unsupported_by_reference"] = counters.get("columns_unsupported_by_reference", 0) + 1
            continue
        optional = col.leaf.rep == 1
        try:
            ev, kind = expected_column(exp[c], optional, opts.get("times", "int64"))
        except Exception as e:
            counters["expected_not_computable"] = counters.get("expected_not_computable", 0) + 1
            continue
        lk = R.logical_kind(col.leaf.se)
        if lk[0] == "timestamp" and lk[2] is not None and getattr(exp[c].dtype, "kind", None) == "M":
            # the integers stored for a zone-aware column are UTC instants (whatever the zone), those of a naive column wall-clock readings:
            # TimestampType.isAdjustedToUTC has to say which, or a reader working from the footer shifts / strips them
            aware = isinstance(exp[c].dtype, pd.DatetimeTZDtype)
            counters["timestamp_utc_flags_checked"] = counters.get("timestamp_utc_flags_checked", 0) + 1
            if aware and str(exp[c].dtype.tz) not in ("UTC", "utc"):
                counters["timestamp_utc_flags_checked_for_zones_other_than_utc"] = counters.get("timestamp_utc_flags_checked_for_zones_other_than_utc", 0) + 1
            if bool(lk[2]) != aware:
                res["failures"].append({"kind": "timestamp_utc_flag_disagrees_with_what_is_stored", "column": name, "isAdjustedToUTC": bool(lk[2]), "input_dtype": str(exp[c].dtype)})
        try:
            gv = R.flat_column(col)
        except StopIteration:
            res["failures"].append({"kind": "decoded_values_short", "column": name})
            continue
        if len(gv) != len(ev):
            res["failures"].append({"kind": "decoded_row_count", "column": name, "expected": len(ev), "got": len(gv)})
            continue
        bad = [i for i, (a, b) in enumerate(zip(ev, gv)) if not cells_equal(a, b)]
        if bad:
            res["failures"].append({"kind": "decoded_cells_differ", "column": name, "col_kind": kind, "n_bad": len(bad), "first_bad": bad[:4],
                                    "expected": [repr(ev[i])[:60] for i in bad[:3]], "got": [repr(gv[i])[:60] for i in bad[:3]],
                                    "optional": optional, "exp_dtype": str(exp[c].dtype),
                                    "expected_null_got_value": all(ev[i] is None for i in bad), "expected_value_got_null": all(gv[i] is None for i in bad)})
        counters["cells_compared"] = counters.get("cells_compared", 0) + len(ev)
        counters["columns_compared"] = counters.get("columns_compared", 0) + 1
    return pages


def history_steps(path, df, opts, res, counters, scheme):
    """The files of a dataset with a history - two appends through one kept handle, then (multi-file) the first row group removed -
    validated and decoded like a fresh write."""
    import pandas as pd
    import fastparquet
    from fastparquet.writer import reset_row_idx
    wi = opts.get("write_index")
    exp1 = df.reset_index() if (wi is True or (wi is None and not isinstance(df.index, pd.RangeIndex))) else df
    pages = 0
    try:
        pf = fastparquet.ParquetFile(path)
        for k_ in range(2):
            pf.write_row_groups(reset_row_idx(df) if pf._get_index() else df, row_group_offsets=[0, max(1, len(df) // 2)] if len(df) > 1 and k_ else None,
                                compression=opts.get("compression"))
    except Exception:
        counters["history_append_refused"] = counters.get("history_append_refused", 0) + 1
        return 0
    n0 = len(res["failures"])
    exp = pd.concat([exp1, exp1, exp1], ignore_index=True)
    pages += check_written(path, df, opts, res, counters, scheme, exp_override=exp)
    counters["histories_validated"] = counters.get("histories_validated", 0) + 1
    if scheme != "simple" and len(pf.row_groups) >= 2 and len(res["failures"]) == n0:
        k = pf.row_groups[0].num_rows
        try:
            # (half of the time with renumbering of the part files: every chunk of _metadata must follow its file to the new name)
            renum = bool(len(df) % 2)
            pf.remove_row_groups(pf.row_groups[0], sort_pnames=renum)
            if renum:
                counters["histories_with_renumbered_parts"] = counters.get("histories_with_renumbered_parts", 0) + 1
        except Exception:
            counters["history_remove_refused"] = counters.get("history_remove_refused", 0) + 1
        else:
            pages += check_written(path, df, opts, res, counters, scheme, exp_override=exp.iloc[k:].reset_index(drop=True))
            counters["histories_with_removal_validated"] = counters.get("histories_with_removal_validated", 0) + 1
    for f in res["failures"][n0:]:
        f["after_history"] = True
    return pages


def run_case(case):
    import fastparquet
    from vf.props import common as C
    df = F.build_frame(case["frame"])
    opts = case["opts"]
    scheme = opts.get("file_scheme", "simple")
    path = C.fresh_path(".parq" if scheme == "simple" else "")
    counters = {}
    res = {"features": [], "nontrivial": False, "failures": [], "counters": counters}
    try:
        with C.writer_globals(case.get("page_size"), case.get("dpv")):
            try:
                fastparquet.write(path, df, **C.write_kwargs(opts))
            except Exception as e:
                res["outcome"] = "rejected"
                counters["write_rejected"] = 1
                return res
        pages = check_written(path, df, opts, res, counters, scheme)
        if zlib.crc32(case["id"].encode()) % 3 == 0 and not res["failures"]:
            pages += history_steps(path, df, opts, res, counters, scheme)
        ctx = {"dpv": case.get("dpv"), "page_size": case.get("page_size"), "scheme": scheme, "compression": c01.codec_class(opts.get("compression")),
               "has_nulls": opts.get("has_nulls") if not isinstance(opts.get("has_nulls"), list) else "list", "times": opts.get("times", "int64"),
               "kinds": sorted({c["kind"] for c in case["frame"]["cols"]})}
        for f in res["failures"]:
            f.update({k: v for k, v in ctx.items() if k not in f})
        res["outcome"] = "ok"
        res["nontrivial"] = pages > 0
        res["features"] = c01.features(case, len(df))
        counters["files_checked"] = 1
        res["sample"] = {"frame": case["frame"], "opts": opts, "dpv": case.get("dpv"), "page_size": case.get("page_size"), "pages_validated": pages}
        return res
    finally:
        C.cleanup(path)


def required(tier):
    return {"validated_pages": 3000, "validated_chunks": 1500, "validated_dict_pages": 100, "validated_v2_pages": 500, "validated_footers": 800,
            "columns_compared": 1000, "histories_validated": 150, "histories_with_removal_validated": 10, "histories_with_renumbered_parts": 5,
            "timestamp_utc_flags_checked": 100, "timestamp_utc_flags_checked_for_zones_other_than_utc": 20}
