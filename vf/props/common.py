"""Helpers shared by property drivers (worker side)."""
import contextlib
import os
import shutil
import traceback

import numpy as np
import pandas as pd

_counter = [0]


def scratch_dir():
    d = os.environ.get("VF_SCRATCH") or "/var/tmp/vf-adhoc"
    os.makedirs(d, exist_ok=True)
    return d


def fresh_path(suffix=""):
    _counter[0] += 1
    p = os.path.join(scratch_dir(), "c%d-%d%s" % (os.getpid(), _counter[0], suffix))
    if os.path.isdir(p):
        shutil.rmtree(p)
    elif os.path.exists(p):
        os.unlink(p)
    return p


def cleanup(p):
    if p is None:
        return
    if os.path.isdir(p):
        shutil.rmtree(p, ignore_errors=True)
    elif os.path.exists(p):
        try:
            os.unlink(p)
        except OSError:
            pass


@contextlib.contextmanager
def writer_globals(page_size=None, dpv=None):
    """Force multi-page / v2 output through the module globals named in the property's observe_at."""
    import fastparquet.writer as w
    old = (w.MAX_PAGE_SIZE, w.DATAPAGE_VERSION)
    try:
        if page_size:
            w.MAX_PAGE_SIZE = page_size
        if dpv:
            w.DATAPAGE_VERSION = dpv
        yield
    finally:
        w.MAX_PAGE_SIZE, w.DATAPAGE_VERSION = old


def exc_shape(e):
    """Failure-shape description of an exception: type + innermost fastparquet frame."""
    tb = traceback.extract_tb(e.__traceback__)
    where = None
    for fr in reversed(tb):
        if "fastparquet" in fr.filename and "/vf/" not in fr.filename:
            where = "%s:%s" % (os.path.basename(fr.filename), fr.name)
            break
    if where is None and tb:
        fr = tb[-1]
        where = "%s:%s" % (os.path.basename(fr.filename), fr.name)
    return {"exc": type(e).__name__, "where": where, "msg": str(e)[:300]}


def write_kwargs(opts):
    kw = {}
    for k in ("row_group_offsets", "compression", "file_scheme", "has_nulls", "write_index", "partition_on",
              "object_encoding", "times", "stats", "custom_metadata", "append", "fixed_text"):
        if k in opts and opts[k] is not None or k in ("compression",) and k in opts:
            kw[k] = opts[k]
    if kw.get("compression", 0) is None:
        kw.pop("compression")
    return kw


def expected_after_roundtrip(df, opts):
    """Canonicalise the input frame into what a faithful read must return (index handling only)."""
    wi = opts.get("write_index")
    exp = df
    if wi is True or (wi is None and not isinstance(df.index, pd.RangeIndex)):
        pass  # index written -> restored
    elif wi is None and isinstance(df.index, pd.RangeIndex):
        pass  # range regenerated from metadata
    else:
        exp = df.reset_index(drop=True)
    return exp


class Reach:
    """Line-level reach counters inside anchor functions via sys.monitoring (DESIGN.md 1.4)."""
    TOOL = 4

    def __init__(self, anchors):
        # anchors: {module_basename: set(qualnames)}
        self.anchors = anchors
        self.lines = {}
        self.calls = {}
        self.on = False

    def start(self):
        import sys
        mon = sys.monitoring
        try:
            mon.use_tool_id(self.TOOL, "vf-reach")
        except ValueError:
            return
        self.on = True

        def py_start(code, off):
            fn = os.path.basename(code.co_filename)
            qs = self.anchors.get(fn)
            if qs is None or code.co_qualname not in qs:
                return mon.DISABLE
            k = fn + ":" + code.co_qualname
            self.calls[k] = self.calls.get(k, 0) + 1
            mon.set_local_events(self.TOOL, code, mon.events.LINE | mon.events.PY_START)

        def line(code, ln):
            k = os.path.basename(code.co_filename) + ":" + code.co_qualname
            self.lines.setdefault(k, set()).add(ln)
            return mon.DISABLE

        mon.register_callback(self.TOOL, mon.events.PY_START, py_start)
        mon.register_callback(self.TOOL, mon.events.LINE, line)
        mon.set_events(self.TOOL, mon.events.PY_START)

    def snapshot(self):
        return {k: len(v) for k, v in self.lines.items()}, dict(self.calls)
