"""C11 - primitive codecs agree with the specification on their whole bounded domain (DESIGN.md 5/C11)."""
import itertools
import zlib

import numpy as np

ID = "C11"
LEVEL = "exploration"
FLAVOUR = "plain"
TECHNIQUE = "runtime monitor: differential oracle (independent spec-level codecs, vf/ref/encodings.py) on the public codec functions over an enumerated parameter lattice, with guard bytes around every output buffer and cursor checks"
RULE = ("enumerated lattice: bit widths 0..32 (0..64 for delta miniblocks) x counts {0..17,23,24,25,31,32,33,63,64,65,127,128,129,255,256,257,"
        "1023,1024,1025} x patterns {zeros, ones, alternating, walking bit, random} x output capacity {0,1,count-1,count,count+1} x item "
        "size {1,4}; varints of 1..10 bytes, zigzag at +-2^k; RLE run lengths; hybrid streams from run plans of <=4 runs; byte arrays; "
        "boolean packing for every count mod 8; delta blocks for block shapes x widths x count classes; writer-side encoders.  One "
        "evaluation = one (function, parameter point); non-trivial = output compared with the reference on >=1 value; distinct = distinct "
        "(function, width, count class, pattern, capacity class, itemsize) tuples.  quick = a third of the counts; thorough = full lattice")
ASSUMPTIONS = ["the reference codecs in vf/ref/encodings.py implement the Parquet Encodings document (self-tested by round trip and on the repository's third-party files)"]
EXHAUSTIVE = True
CASE_TIMEOUT = 120
HANG_IS_VIOLATION = True

COUNTS_FULL = list(range(0, 18)) + [23, 24, 25, 31, 32, 33, 63, 64, 65, 127, 128, 129, 255, 256, 257, 1023, 1024, 1025]
COUNTS_QUICK = [0, 1, 2, 7, 8, 9, 16, 17, 24, 33, 64, 129, 256, 1025]
PATTERNS = ["zeros", "ones", "alt", "walk", "rand"]


def gen_cases(tier, seed):
    cases = []
    for w in range(0, 33):
        for item in (1, 4):
            if item == 1 and w > 8:
                continue
            cases.append({"id": "bitpacked/w%d/i%d" % (w, item), "fn": "read_bitpacked", "w": w, "item": item})
            cases.append({"id": "rle/w%d/i%d" % (w, item), "fn": "read_rle", "w": w, "item": item})
            cases.append({"id": "hybrid/w%d/i%d" % (w, item), "fn": "hybrid", "w": w, "item": item})
        cases.append({"id": "encode_bitpacked/w%d" % w, "fn": "encode_bitpacked", "w": w})
    for w in range(0, 65):
        for longval in (0, 1):
            if not longval and w > 32:
                continue
            cases.append({"id": "delta/w%d/l%d" % (w, longval), "fn": "delta", "w": w, "longval": longval})
    for fn in ("bitpacked1", "varint", "bool", "byte_array", "plain", "writer_side", "write_bitpacked1", "width_from_max_int", "numpyio"):
        cases.append({"id": fn, "fn": fn})
    for c in cases:
        c["tier"] = tier
        c["seed"] = seed
    return cases


def _pattern(p, w, n, rng):
    m = (1 << w) - 1 if w else 0
    if p == "zeros" or w == 0:
        return [0] * n
    if p == "ones":
        return [m] * n
    if p == "alt":
        return [m if i % 2 else 0 for i in range(n)]
    if p == "walk":
        return [(1 << (i % w)) for i in range(n)]
    return [int(x) for x in rng.integers(0, m, n, dtype="uint64", endpoint=True)] if w < 64 else [int(x) for x in rng.integers(0, 2 ** 63, n, dtype="uint64")]


GUARD = 64


class Out:
    """Output buffer with guard bytes on both sides."""

    def __init__(self, cap_items, item):
        self.item = item
        self.cap = cap_items * item
        self.big = np.full(self.cap + 2 * GUARD, 0xA5, dtype=np.uint8)
        self.view = self.big[GUARD:GUARD + self.cap]

    def io(self):
        from fastparquet.cencoding import NumpyIO
        self.nio = NumpyIO(self.view)
        return self.nio

    def guard_ok(self):
        return bool((self.big[:GUARD] == 0xA5).all() and (self.big[GUARD + self.cap:] == 0xA5).all())

    def values(self, n):
        if self.item == 4:
            return self.view[:n * 4].view("<u4").tolist()
        if self.item == 8:
            return self.view[:n * 8].view("<u8").tolist()
        return self.view[:n].tolist()


def caps_for(n):
    return sorted({0, 1, max(0, n - 1), n, n + 1})


def _cc(n):
    return "0" if n == 0 else ("1-8" if n <= 8 else ("9-64" if n <= 64 else ">64"))


def run_case(case):
    from fastparquet import cencoding as CE
    from vf.ref import encodings as E
    fn = case["fn"]
    counts = COUNTS_QUICK if case["tier"] == "quick" else COUNTS_FULL
    rng = np.random.default_rng([case["seed"], zlib.crc32(case["id"].encode()) & 0xFFFF])
    fails = []
    feats = set()
    npoints = [0]

    def fail(**kw):
        if len(fails) < 12:
            kw.setdefault("func", fn)
            fails.append(kw)

    def point(*f):
        npoints[0] += 1
        feats.add(str(f))

    if fn == "read_bitpacked":
        w, item = case["w"], case["item"]
        for n in counts:
            groups = (n + 7) // 8
            for p in PATTERNS:
                vals = _pattern(p, w, groups * 8, rng)
                body = E.pack_bits(vals, w)
                for cap in caps_for(groups * 8):
                    for tail in (b"", b"\xff" * 8):
                        src = np.frombuffer(body + tail, dtype=np.uint8) if (body + tail) else np.zeros(1, dtype=np.uint8)
                        fin = CE.NumpyIO(src)
                        out = Out(cap, item)
                        o = out.io()
                        CE.read_bitpacked(fin, (groups << 1) | 1, w, o, item)
                        want_n = min(groups * 8, cap)
                        exp = [v & (0xFF if item == 1 else 0xFFFFFFFF) for v in vals[:want_n]]
                        got = out.values(want_n)
                        point("read_bitpacked", w, _cc(n), p, "cap" + str(np.sign(cap - groups * 8)), item, bool(tail))
                        ctx = dict(width=w, count=groups * 8, pattern=p, capacity=cap, itemsize=item, trailing_bytes=len(tail))
                        if not out.guard_ok():
                            fail(kind="guard_bytes_overwritten", **ctx)
                        if o.tell() != want_n * item:
                            fail(kind="output_cursor", expected=want_n * item, got=o.tell(), **ctx)
                        elif got != exp:
                            bad = [i for i, (a, b) in enumerate(zip(exp, got)) if a != b]
                            fail(kind="values_differ", first_bad=bad[:3], expected=exp[bad[0]], got_value=got[bad[0]], **ctx)
                        if groups and fin.tell() != len(body) and w:
                            fail(kind="input_cursor", expected=len(body), got=fin.tell(), **ctx)
    elif fn == "read_rle":
        w, item = case["w"], case["item"]
        for n in [0, 1, 2, 7, 8, 9, 100, 2 ** 14, 2 ** 21] if case["tier"] != "quick" else [0, 1, 8, 9, 2 ** 14]:
            for p in ("zeros", "ones", "rand"):
                v = _pattern(p, w, 1, rng)[0] if w else 0
                body = int(v).to_bytes((w + 7) // 8, "little")
                for cap in sorted({0, 1, max(0, n - 1), n, n + 1} if n < 5000 else {0, 5, 4096}):
                    src = np.frombuffer(body + b"\xee" * 4, dtype=np.uint8)
                    fin = CE.NumpyIO(src)
                    out = Out(cap, item)
                    o = out.io()
                    CE.read_rle(fin, n << 1, w, o, item)
                    want_n = min(n, cap)
                    exp = [v & (0xFF if item == 1 else 0xFFFFFFFF)] * want_n
                    got = out.values(want_n)
                    point("read_rle", w, _cc(n), p, "cap" + str(np.sign(cap - n)), item)
                    ctx = dict(width=w, count=n, value=v, capacity=cap, itemsize=item)
                    if not out.guard_ok():
                        fail(kind="guard_bytes_overwritten", **ctx)
                    if o.tell() != want_n * item:
                        fail(kind="output_cursor", expected=want_n * item, got=o.tell(), **ctx)
                    elif got != exp:
                        fail(kind="values_differ", expected=exp[:1], got_value=got[:1], **ctx)
                    if fin.tell() != len(body):
                        fail(kind="input_cursor", expected=len(body), got=fin.tell(), **ctx)
    elif fn == "hybrid":
        w, item = case["w"], case["item"]
        plans = [[("bp", 8)], [("rle", 5)], [("rle", 5), ("bp", 16), ("rle", 1)], [("bp", 8), ("bp", 24), ("rle", 3), ("bp", 7)],
                 [("rle", 1), ("rle", 2), ("rle", 300)], [("bp", 64), ("rle", 9), ("bp", 3)], [("rle", 0), ("bp", 8)], [("bp", 1)]]
        for plan in plans:
            for p in ("rand", "ones", "alt"):
                vals = []
                for kind, n in plan:
                    if kind == "rle":
                        vals += [(_pattern(p, w, 1, rng)[0] if w else 0)] * n
                    else:
                        vals += _pattern(p, w, n, rng)
                stream = E.hybrid_encode(vals, w, plan)
                total = len(vals)
                # the decoder has no value count other than the output capacity: a final bit-packed group is decoded including
                # its padding when the output has room for it
                pad = (-plan[-1][1]) % 8 if plan[-1][0] == "bp" else 0
                padded_vals = vals + [0] * pad
                for cap in caps_for(total):
                    for prefix in (False, True):
                        buf = (len(stream).to_bytes(4, "little") if prefix else b"") + stream + b"\xcc" * 8
                        fin = CE.NumpyIO(np.frombuffer(buf, dtype=np.uint8))
                        out = Out(cap, item)
                        o = out.io()
                        CE.read_rle_bit_packed_hybrid(fin, w, 0 if prefix else len(stream), o, item)
                        want_n = min(total + pad, cap)
                        exp = [v & (0xFF if item == 1 else 0xFFFFFFFF) for v in padded_vals[:want_n]]
                        got = out.values(want_n)
                        point("hybrid", w, str(plan), p, "cap" + str(np.sign(cap - total)), item, prefix)
                        ctx = dict(width=w, plan=plan, pattern=p, capacity=cap, itemsize=item, length_prefixed=prefix)
                        if not out.guard_ok():
                            fail(kind="guard_bytes_overwritten", **ctx)
                        if o.tell() != want_n * item:
                            fail(kind="output_cursor", expected=want_n * item, got=o.tell(), **ctx)
                        elif got != exp:
                            bad = [i for i, (a, b) in enumerate(zip(exp, got)) if a != b]
                            fail(kind="values_differ", first_bad=bad[:3], **ctx)
                        if cap >= total and fin.tell() != len(stream) + (4 if prefix else 0) and w:
                            fail(kind="input_cursor", expected=len(stream) + (4 if prefix else 0), got=fin.tell(), **ctx)
    elif fn == "encode_bitpacked":
        w = case["w"]
        for n in counts:
            if n > 300:
                continue
            for p in PATTERNS:
                vals = _pattern(p, min(w, 31), n, rng)
                arr = np.array(vals, dtype=np.int32)
                out = Out(n * 4 + 16, 1)
                o = out.io()
                CE.encode_bitpacked(arr, w, o)
                produced = bytes(out.view[:o.tell()])
                point("encode_bitpacked", w, _cc(n), p)
                ctx = dict(width=w, count=n, pattern=p)
                if not out.guard_ok():
                    fail(kind="guard_bytes_overwritten", **ctx)
                try:
                    dec, pos, runs = E.hybrid_decode(produced, w, n)
                except E.DecodeError as e:
                    fail(kind="encoder_output_not_decodable", err=str(e), **ctx)
                    continue
                if dec != [v & ((1 << w) - 1 if w else 0) for v in vals]:
                    fail(kind="encoder_output_decodes_differently", **ctx)
                # the fastparquet decoder on the encoder's own output (round trip)
                back = Out(n, 4)
                bo = back.io()
                if n:
                    CE.read_rle_bit_packed_hybrid(CE.NumpyIO(np.frombuffer(produced + b"\0" * 8, dtype=np.uint8)), w, len(produced), bo, 4)
                    if back.values(n) != [v & ((1 << w) - 1 if w else 0) for v in vals]:
                        fail(kind="decode_of_encode_differs", **ctx)
    elif fn == "delta":
        w, longval = case["w"], case["longval"]
        bits = 64 if longval else 32
        shapes = [(128, 4), (256, 8), (1024, 32)] if case["tier"] != "quick" else [(128, 4), (256, 8)]
        ns = [1, 2, 3, 31, 32, 33, 34, 127, 128, 129, 130, 257, 300] if case["tier"] != "quick" else [1, 2, 33, 129, 130, 300]
        for (bs, mb) in shapes:
            for n in ns:
                # data forcing the widest miniblock delta range to exactly w bits
                lim = (1 << (bits - 1)) - 1
                deltas = [0] * (n - 1)
                if w and n > 1:
                    span = (1 << w) - 1
                    deltas = [int(x) for x in rng.integers(0, span, n - 1, dtype="uint64", endpoint=True)]
                    deltas[0] = span
                    if n > 2:
                        deltas[1] = 0
                start = -lim - 1 if w >= bits - 1 else int(rng.integers(-1000, 1000))
                vals = [start]
                mask = (1 << bits) - 1
                for d in deltas:
                    x = (vals[-1] + d) & mask
                    vals.append(x - (1 << bits) if x >> (bits - 1) else x)
                stream = E.delta_encode(vals, bs, mb, bits)
                chk, _, info = E.delta_decode(stream, 0, bits)
                assert chk == vals
                for cap in (n, n + 1):
                    fin = CE.NumpyIO(np.frombuffer(stream + b"\0" * 16, dtype=np.uint8))
                    out = Out(cap, 8 if longval else 4)
                    o = out.io()
                    CE.delta_binary_unpack(fin, o, longval)
                    if longval:
                        got = out.view[:n * 8].view("<i8").tolist()
                    else:
                        got = out.view[:n * 4].view("<i4").tolist()
                    point("delta", w, (bs, mb), _cc(n), longval, cap - n, tuple(sorted(set(info["widths"]))))
                    ctx = dict(width=w, max_miniblock_width=max(info["widths"] or [0]), block=(bs, mb), count=n, longval=longval, capacity=cap)
                    if not out.guard_ok():
                        fail(kind="guard_bytes_overwritten", **ctx)
                    if got != vals:
                        bad = [i for i, (a, b) in enumerate(zip(vals, got)) if a != b]
                        fail(kind="values_differ", first_bad=bad[:3], **ctx)
                    # (the input cursor after a delta page is not compared: nothing follows the values in a page and the format
                    #  does not define a position; reads past the end of the buffer are C12's subject)
    elif fn == "bitpacked1":
        for n in range(0, 70):
            for cap in caps_for(n):
                bits_ = [int(x) for x in rng.integers(0, 2, n)]
                body = E.pack_bits(bits_, 1) + b"\xff"
                fin = CE.NumpyIO(np.frombuffer(body, dtype=np.uint8))
                out = Out(cap, 1)
                o = out.io()
                CE.read_bitpacked1(fin, n, o)
                want = min(n, cap)
                point("read_bitpacked1", n % 8, _cc(n), np.sign(cap - n))
                ctx = dict(count=n, capacity=cap, func="read_bitpacked1")
                if not out.guard_ok():
                    fail(kind="guard_bytes_overwritten", **ctx)
                if o.tell() != want or out.values(want) != bits_[:want]:
                    fail(kind="values_differ", **ctx)
                if fin.tell() != (n + 7) // 8:
                    fail(kind="input_cursor", expected=(n + 7) // 8, got=fin.tell(), **ctx)
    elif fn == "varint":
        vals = [0, 1, 127, 128, 255, 300, 16383, 16384] + [2 ** k for k in range(14, 64)] + [2 ** k - 1 for k in range(14, 65)]
        for v in vals:
            b = E.uvarint_encode(v)
            fin = CE.NumpyIO(np.frombuffer(b + b"\x80\x80", dtype=np.uint8))
            got = CE.read_unsigned_var_int(fin)
            point("read_unsigned_var_int", len(b))
            if got != v or fin.tell() != len(b):
                fail(kind="values_differ", func="read_unsigned_var_int", value=v, got_value=int(got), cursor=fin.tell(), nbytes=len(b))
            out = Out(12, 1)
            o = out.io()
            CE.encode_unsigned_varint(v, o)
            point("encode_unsigned_varint", len(b))
            if bytes(out.view[:o.tell()]) != b or not out.guard_ok():
                fail(kind="values_differ", func="encode_unsigned_varint", value=v, got_value=bytes(out.view[:o.tell()]).hex(), expected=b.hex())
        # zigzag through the delta header (first value) - the only public route
        for k in list(range(0, 63)) + [63]:
            for sgn in (1, -1):
                v = sgn * (2 ** k) if k < 63 else -(2 ** 63)
                if v > 2 ** 63 - 1:
                    continue
                stream = E.delta_encode([v], 128, 4, 64)
                out = Out(1, 8)
                o = out.io()
                CE.delta_binary_unpack(CE.NumpyIO(np.frombuffer(stream + b"\0" * 8, dtype=np.uint8)), o, 1)
                got = out.view[:8].view("<i8").tolist()[0]
                point("zigzag_long", k, sgn)
                if got != v:
                    fail(kind="values_differ", func="zigzag_long(via delta header)", value=v, got_value=got)
    elif fn == "bool":
        from fastparquet import encoding as EN
        from fastparquet import writer as W
        import pandas as pd
        for n in range(0, 67):
            bits_ = [bool(x) for x in rng.integers(0, 2, n)]
            body = E.pack_bits([int(b) for b in bits_], 1)
            got = EN.read_plain_boolean(body + b"\xff", n) if n else EN.read_plain_boolean(b"\0", 0)
            point("read_plain_boolean", n % 8, _cc(n))
            if list(map(bool, got)) != bits_:
                fail(kind="values_differ", func="read_plain_boolean", count=n)
            if n:
                from fastparquet import parquet_thrift
                se = parquet_thrift.SchemaElement(type=parquet_thrift.Type.BOOLEAN, name="b")
                enc = W.encode_plain(pd.Series(bits_), se)
                point("encode_plain_bool", n % 8, _cc(n))
                if bytes(enc)[:len(body)] != body:
                    fail(kind="values_differ", func="writer.encode_plain(bool)", count=n, got_value=bytes(enc).hex()[:40], expected=body.hex()[:40])
                if len(enc) not in (len(body), len(body) + 1):
                    fail(kind="encoded_length", func="writer.encode_plain(bool)", count=n, got=len(enc), expected=len(body))
    elif fn == "byte_array":
        from fastparquet import speedups as SP
        for lens in ([], [0], [1], [255], [256], [65536], [0, 1, 0, 300, 2], [5] * 40):
            items = [bytes(rng.integers(0, 256, L, dtype="uint8")) for L in lens]
            ref = E.plain_encode("BYTE_ARRAY", items)
            got = SP.pack_byte_array(list(items))
            point("pack_byte_array", str(lens)[:20])
            if got != ref:
                fail(kind="values_differ", func="pack_byte_array", lens=lens)
            if items:
                back = SP.unpack_byte_array(np.frombuffer(ref, dtype=np.uint8), len(items))
                point("unpack_byte_array", str(lens)[:20])
                if list(back) != items:
                    fail(kind="values_differ", func="unpack_byte_array", lens=lens)
                texts = ["".join(chr(97 + (b % 26)) for b in it[:50]) + "é日" for it in items]
                refu = E.plain_encode("BYTE_ARRAY", [t.encode("utf8") for t in texts])
                backu = SP.unpack_byte_array(np.frombuffer(refu, dtype=np.uint8), len(texts), utf=True)
                if list(backu) != texts:
                    fail(kind="values_differ", func="unpack_byte_array(utf)", lens=lens)
                enc = SP.array_encode_utf8(np.array(texts, dtype=object))
                if list(enc) != [t.encode("utf8") for t in texts]:
                    fail(kind="values_differ", func="array_encode_utf8", lens=lens)
    elif fn == "plain":
        from fastparquet import encoding as EN
        from fastparquet import parquet_thrift as PT
        for n in (0, 1, 7, 100):
            for ptype, tid, gen in (("INT32", PT.Type.INT32, lambda: rng.integers(-2 ** 31, 2 ** 31 - 1, n).tolist()),
                                    ("INT64", PT.Type.INT64, lambda: rng.integers(-2 ** 63, 2 ** 63 - 1, n).tolist()),
                                    ("FLOAT", PT.Type.FLOAT, lambda: rng.standard_normal(n).astype("f4").tolist()),
                                    ("DOUBLE", PT.Type.DOUBLE, lambda: rng.standard_normal(n).tolist())):
                vals = gen()
                raw = E.plain_encode(ptype, vals)
                got = EN.read_plain(raw, tid, n)
                point("read_plain", ptype, _cc(n))
                if np.asarray(got).tolist() != np.asarray(vals, dtype=E.PLAIN_NP[ptype]).tolist():
                    fail(kind="values_differ", func="read_plain", ptype=ptype, count=n)
            if n:
                fl = [bytes(rng.integers(0, 256, 5, dtype="uint8")) for _ in range(n)]
                got = EN.read_plain(b"".join(fl), PT.Type.FIXED_LEN_BYTE_ARRAY, n, width=5)
                point("read_plain", "FLBA", _cc(n))
                if [bytes(x).ljust(5, b"\0") for x in got.tolist()] != fl:
                    fail(kind="values_differ", func="read_plain", ptype="FLBA", count=n)
    elif fn == "writer_side":
        import pandas as pd
        from fastparquet import writer as W
        # encode_dict: <width byte> <bit-packed run header> <raw codes>
        for dt in ("int8", "int16", "int32"):
            for n in (0, 1, 7, 8, 9, 64, 65, 300):
                codes = rng.integers(0, 100, n).astype(dt)
                enc = bytes(W.encode_dict(pd.Series(codes), None))
                width = np.dtype(dt).itemsize * 8
                point("encode_dict", dt, _cc(n))
                ctx = dict(func="writer.encode_dict", dtype=dt, count=n)
                if not enc or enc[0] != width:
                    fail(kind="values_differ", what="width byte", **ctx)
                    continue
                try:
                    dec, pos, runs = E.hybrid_decode(enc, width, n, pos=1)
                except E.DecodeError as e:
                    fail(kind="encoder_output_not_decodable", err=str(e), **ctx)
                    continue
                if dec != [int(c) for c in codes]:
                    fail(kind="encoder_output_decodes_differently", **ctx)
        # make_definitions: v1 = <4-byte length> <hybrid levels>, v2 = <hybrid levels>
        for n in (1, 2, 7, 8, 9, 63, 64, 65, 300):
            for pat in ("none", "first", "alt", "all"):
                for dpv in (1, 2):
                    mask = {"none": np.zeros(n, bool), "first": np.arange(n) == 0, "alt": np.arange(n) % 2 == 0, "all": np.ones(n, bool)}[pat]
                    s = pd.Series(np.where(mask, np.nan, 1.5))
                    block, rest = W.make_definitions(s, not mask.any(), datapage_version=dpv)
                    block = bytes(block)
                    point("make_definitions", pat, _cc(n), dpv)
                    ctx = dict(func="writer.make_definitions", count=n, nulls=pat, dpv=dpv)
                    pos = 0
                    if dpv == 1:
                        ln = int.from_bytes(block[:4], "little")
                        if ln != len(block) - 4:
                            fail(kind="values_differ", what="v1 length prefix", expected=len(block) - 4, got=ln, **ctx)
                        pos = 4
                    try:
                        dec, pos2, runs = E.hybrid_decode(block, 1, n, pos=pos)
                    except E.DecodeError as e:
                        fail(kind="encoder_output_not_decodable", err=str(e), **ctx)
                        continue
                    if dec != [0 if m else 1 for m in mask]:
                        fail(kind="encoder_output_decodes_differently", **ctx)
                    if len(rest) != int((~mask).sum()):
                        fail(kind="values_differ", what="non-null values returned", **ctx)
        # encode_rle_bp with length prefix
        for w in (1, 3, 8, 12):
            for n in (1, 8, 9, 100):
                vals = np.array(_pattern("rand", w, n, rng), dtype=np.int32)
                for withlength in (0, 1):
                    out = Out(n * 4 + 32, 1)
                    o = out.io()
                    from fastparquet import cencoding as CE2
                    CE2.encode_rle_bp(vals, w, o, withlength)
                    produced = bytes(out.view[:o.tell()])
                    point("encode_rle_bp", w, _cc(n), withlength)
                    ctx = dict(func="encode_rle_bp", width=w, count=n, withlength=withlength)
                    pos = 0
                    if withlength:
                        if int.from_bytes(produced[:4], "little") != len(produced) - 4:
                            fail(kind="values_differ", what="length prefix", **ctx)
                        pos = 4
                    try:
                        dec, _, _ = E.hybrid_decode(produced, w, n, pos=pos)
                        if dec != vals.tolist():
                            fail(kind="encoder_output_decodes_differently", **ctx)
                    except E.DecodeError as e:
                        fail(kind="encoder_output_not_decodable", err=str(e), **ctx)
        # two length-prefixed streams one after the other into ONE output (repetition levels, then definition levels of a v1 page): the
        # second encoder call starts at a non-zero position
        for w1, w2 in ((1, 3), (3, 1), (8, 2)):
            for n in (1, 9, 100):
                from fastparquet import cencoding as CE2
                v1 = np.array(_pattern("rand", w1, n, rng), dtype=np.int32)
                v2 = np.array(_pattern("rand", w2, n, rng), dtype=np.int32)
                out = Out(n * 8 + 64, 1)
                o = out.io()
                CE2.encode_rle_bp(v1, w1, o, 1)
                mid = o.tell()
                CE2.encode_rle_bp(v2, w2, o, 1)
                produced = bytes(out.view[:o.tell()])
                point("encode_rle_bp", w1, w2, _cc(n), "two streams on one output")
                ctx = dict(func="encode_rle_bp", width=[w1, w2], count=n, withlength=1, second_stream_starts_at=mid)
                try:
                    l1 = int.from_bytes(produced[:4], "little")
                    dec1, _, _ = E.hybrid_decode(produced[:4 + l1], w1, n, pos=4)
                    l2 = int.from_bytes(produced[4 + l1:8 + l1], "little")
                    if 8 + l1 + l2 != len(produced):
                        fail(kind="values_differ", what="length prefix of the second stream", **ctx)
                    dec2, _, _ = E.hybrid_decode(produced[:8 + l1 + l2], w2, n, pos=8 + l1)
                    if dec1 != v1.tolist() or dec2 != v2.tolist():
                        fail(kind="encoder_output_decodes_differently", which=[dec1 != v1.tolist(), dec2 != v2.tolist()], **ctx)
                except (E.DecodeError, IndexError, ValueError) as e:
                    fail(kind="encoder_output_not_decodable", err=str(e)[:80], **ctx)
    elif fn == "write_bitpacked1":
        # documented as "implementation of np.packbits with output array. Input is int8 array"
        for n in (0, 1, 7, 8, 9, 16, 17, 64, 65):
            bits_ = rng.integers(0, 2, n).astype(np.uint8)
            src = np.concatenate([bits_, np.zeros(16, dtype=np.uint8)])
            fin = CE.NumpyIO(src)
            out = Out((n + 7) // 8 + 2, 1)
            o = out.io()
            CE.write_bitpacked1(fin, n, o)
            exp = np.packbits(bits_).tolist()
            point("write_bitpacked1", n % 8, _cc(n))
            ctx = dict(func="write_bitpacked1", count=n)
            if not out.guard_ok():
                fail(kind="guard_bytes_overwritten", **ctx)
            if o.tell() != (n + 7) // 8:
                fail(kind="output_cursor", expected=(n + 7) // 8, got=o.tell(), **ctx)
            elif out.values((n + 7) // 8) != exp:
                fail(kind="values_differ", expected=exp[:4], got_value=out.values((n + 7) // 8)[:4], **ctx)
            if fin.tell() != n:
                fail(kind="input_cursor", expected=n, got=fin.tell(), **ctx)
    elif fn == "width_from_max_int":
        for v in [0, 1, 2, 3, 4, 7, 8, 255, 256, 2 ** 31 - 1, 2 ** 31, 2 ** 62]:
            point("width_from_max_int", v.bit_length())
            if CE.width_from_max_int(v) != E.width_for(v):
                fail(kind="values_differ", func="width_from_max_int", value=v, got_value=CE.width_from_max_int(v), expected=E.width_for(v))
    elif fn == "numpyio":
        buf = np.arange(32, dtype=np.uint8)
        io = CE.NumpyIO(buf)
        point("numpyio", "read")
        if bytes(io.read(4)) != bytes(range(4)) or io.tell() != 4 or io.read_byte() != 4 or io.read_int() != int.from_bytes(bytes(range(5, 9)), "little"):
            fail(kind="values_differ", func="NumpyIO.read*")
        io.seek(30)
        if io.read_int() != 0 or io.tell() != 30:
            fail(kind="values_differ", func="NumpyIO.read_int at end")
        io.seek(1000)
        if io.tell() != 32:
            fail(kind="values_differ", func="NumpyIO.seek clamp")
        out = Out(6, 1)
        o = out.io()
        o.write_int(0x01020304)
        o.write_int(0x05060708)      # does not fit: ignored
        o.write_byte(9)
        o.write_byte(10)
        o.write_byte(11)             # does not fit: ignored
        point("numpyio", "write")
        if not out.guard_ok() or o.tell() != 6 or out.values(6) != [4, 3, 2, 1, 9, 10]:
            fail(kind="values_differ", func="NumpyIO.write*", got_value=out.values(6), cursor=o.tell())
    res = {"outcome": "ok", "nontrivial": npoints[0] > 0, "features": sorted(feats), "failures": fails,
           "counters": {"points": npoints[0], "points:" + fn: npoints[0]},
           "sample": {"function": fn, **{k: v for k, v in case.items() if k in ("w", "item", "longval")}, "points": npoints[0]}}
    return res


def coverage_extra(agg):
    feats = set()
    pts = 0
    for r in agg.results.values():
        for f in r.get("features") or []:
            feats.add(f)
        pts += (r.get("counters") or {}).get("points", 0)
    return {"distinct_nontrivial": len(feats), "evaluations": pts, "cases": len(agg.results),
            "exhaustive": agg.tier == "thorough",
            "exhaustive_note": "thorough enumerates the whole stated lattice; quick a fixed subset of the counts"}


def required(tier):
    return {"points": 20000, "points:read_bitpacked": 5000, "points:hybrid": 3000, "points:delta": 500, "points:varint": 100}
