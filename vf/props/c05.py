"""C05 - filtered reads never lose a qualifying row: row-group pruning is sound (DESIGN.md 5/C05)."""
import zlib
import itertools

import numpy as np

ID = "C05"
LEVEL = "exploration"
FLAVOUR = "plain"
TECHNIQUE = "runtime monitor: decision-level contracts on filter_out_stats/filter_out_cats + API-level result check against an independent predicate evaluator over ground-truth rows; exhaustive small lattice over filter_val/filter_in/filter_not_in"
RULE = ("seeded datasets (row-group splits, hive/drill partitions, stats on/off/partial, nulls, NaN, all-null chunks, categoricals) x ~40 "
        "generated filter programs each (constants at/around chunk bounds, present/absent values, other comparable types, empty "
        "'in' lists, AND lists and OR-of-AND lists, partition columns); non-trivial = a program accepted by the library whose "
        "pruning decision was judged on a dataset with >=2 row groups; distinct = distinct (operator set, column families, "
        "shape of program, n pruned>0) tuples")
ASSUMPTIONS = ["ground-truth rows per row group come from the unfiltered read of the same handle (C01/C06)",
               "a missing-like cell (NULL, NaN, NaT) satisfies no condition (weakest reading: pruning such rows is never an alarm)",
               "a filtered call that raises loses nothing silently and is counted as refused"]
CASE_TIMEOUT = 120

from vf.gen import datasets as D
from vf.gen import frames as F
from vf.gen import filters as FG

VALUE_KINDS = ["int32", "int64", "float64", "float32", "str", "ostr", "dt_ns", "dt_us", "dt_ms", "cat_str", "cat_int", "Int64", "uint8",
               "uint64", "dtz_ns", "bool", "bytes", "cat_str_ord", "Int16", "boolean", "td_us", "dt_s", "td_s", "td_ms"]


def gen_cases(tier, seed):
    rng = np.random.default_rng([seed, 505])
    cases = [{"id": "LATTICE", "lattice": True}]
    n = 220 if tier == "quick" else 4000
    for i in range(n):
        c = D.random_dataset(rng, "D/%d/%d" % (seed, i), pkinds=D.ALL_PKINDS if i % 3 == 0 else D.BENIGN_PKINDS,
                             value_kinds=VALUE_KINDS, max_rows=90, min_rows=2, max_cols=4)
        n_rows = c["frame"]["nrows"]
        if i % 2 == 0:
            c["opts"]["row_group_offsets"] = max(1, n_rows // int(rng.integers(2, 9)))
        c["opts"]["has_nulls"] = True
        c["opts"]["stats"] = [True, True, "auto", False, ["v0"]][int(rng.integers(0, 5))]
        if i % 5 == 0:
            # sorted / clustered values so that pruning actually happens
            c["sorted"] = True
        c["pseed"] = int(rng.integers(0, 2 ** 31))
        c["nprog"] = 40
        if i % 4 == 2 and c["opts"].get("file_scheme") in ("hive", "drill"):
            c["new_style_stats"] = True
        pon = c["opts"].get("partition_on") or []
        if i % 6 == 1 and pon and c["opts"].get("file_scheme") == "hive":
            # a partition column whose name ENDS in the name of a data column (and is no identifier): conditions on the data column
            # must not be judged against the directory values
            datacols = [col["name"] for col in c["frame"]["cols"] if col["name"] not in pon]
            new = ["k-", "key.", "dir "][i % 3] + datacols[i % len(datacols)]
            for col in c["frame"]["cols"]:
                if col["name"] == pon[0]:
                    col["name"] = new
            c["opts"]["partition_on"] = [new] + pon[1:]
            c["suffix_named_partition"] = True
        cases.append(c)
    return cases


# ---------------------------------------------------------------------------------------------- lattice

def run_lattice():
    import fastparquet.api as A
    fails = []
    n = 0
    half = [x / 2.0 for x in range(-2, 15)]
    bounds = [None, 0, 1, 2, 3, 5]
    for op in ["==", "=", "!=", "<", "<=", ">", ">="]:
        for val in half:
            for vmin in bounds:
                for vmax in bounds:
                    if vmin is not None and vmax is not None and vmin > vmax:
                        continue
                    n += 1
                    try:
                        pruned = A.filter_val(op, val, vmin, vmax)
                    except Exception as e:
                        fails.append({"kind": "lattice_raised", "func": "filter_val", "args": [op, val, vmin, vmax], "exc": type(e).__name__})
                        continue
                    if not pruned:
                        continue
                    lo = -3.0 if vmin is None else float(vmin)
                    hi = 9.0 if vmax is None else float(vmax)
                    # the stored values: anything in [lo, hi] (bounds included when known)
                    cands = [x / 2.0 for x in range(int(lo * 2), int(hi * 2) + 1)]
                    import operator
                    f = {"==": operator.eq, "=": operator.eq, "!=": operator.ne, "<": operator.lt, "<=": operator.le, ">": operator.gt, ">=": operator.ge}[op]
                    # sound iff no value set consistent with the bounds has a qualifying member.  The least favourable set for
                    # "!=" is {vmin, vmax}; for the others any single candidate.
                    if op == "!=":
                        sets_ok = (vmin is not None and vmax is not None and vmin == vmax and not f(float(vmin), val))
                        bad = not sets_ok
                        w = None
                    else:
                        w = next((c for c in cands if f(c, val)), None)
                        bad = w is not None
                    if bad:
                        fails.append({"kind": "lattice_unsound_prune", "func": "filter_val", "args": [op, val, vmin, vmax], "witness": w})
    universe = [0, 1, 2, 3, 4, 5, 6]
    for k in range(0, 4):
        for vals in itertools.combinations(universe, k):
            for vmin in bounds:
                for vmax in bounds:
                    if vmin is not None and vmax is not None and vmin > vmax:
                        continue
                    n += 2
                    lo = -1 if vmin is None else vmin
                    hi = 8 if vmax is None else vmax
                    try:
                        p_in = A.filter_val("in", list(vals), vmin, vmax)
                        p_nin = A.filter_val("not in", list(vals), vmin, vmax)
                    except Exception as e:
                        fails.append({"kind": "lattice_raised", "func": "filter_in", "args": [list(vals), vmin, vmax], "exc": type(e).__name__})
                        continue
                    if p_in:
                        w = next((c for c in range(lo, hi + 1) if c in vals), None)
                        if w is not None:
                            fails.append({"kind": "lattice_unsound_prune", "func": "filter_in", "args": [list(vals), vmin, vmax], "witness": w})
                    if p_nin:
                        # sound only if every consistent stored set is inside vals: needs vmin == vmax (known) and that value in vals
                        if not (vmin is not None and vmax is not None and vmin == vmax and vmin in vals):
                            # a set {vmin, x, vmax} with x not in vals exists unless the range is fully covered by vals
                            rng_ = range(lo, hi + 1)
                            w = next((c for c in rng_ if c not in vals), None)
                            if w is not None and not (vmin is not None and vmax is not None and all(c in vals for c in range(vmin, vmax + 1))):
                                fails.append({"kind": "lattice_unsound_prune", "func": "filter_not_in", "args": [list(vals), vmin, vmax], "witness": w})
    # --- instants: the bounds are numpy datetime64 of the column's unit; the constant names the same instant in every form a caller
    #     may write it (datetime, Timestamp naive / aware, datetime64 of another unit, ISO text), alone or in any kind of collection
    import datetime
    import numpy as np
    import pandas as pd
    day = 86400
    reps = {"datetime": lambda sec: datetime.datetime(1970, 1, 1) + datetime.timedelta(seconds=sec),
            "Timestamp": lambda sec: pd.Timestamp(sec, unit="s"),
            "Timestamp_utc": lambda sec: pd.Timestamp(sec, unit="s", tz="UTC"),
            "datetime_utc": lambda sec: datetime.datetime(1970, 1, 1, tzinfo=datetime.timezone.utc) + datetime.timedelta(seconds=sec),
            "datetime64_s": lambda sec: np.datetime64(sec, "s"),
            "datetime64_ns": lambda sec: np.datetime64(sec * 10 ** 9, "ns")}
    for unit in ("ns", "us", "ms", "s"):
        mult = {"ns": 10 ** 9, "us": 10 ** 6, "ms": 10 ** 3, "s": 1}[unit]
        b = lambda sec: np.datetime64(sec * mult, unit)
        for rname, rep in reps.items():
            for d in (0, 1, 2):
                for lo, hi in ((d, d), (0, 2), (d, 3)):
                    for cname, cont in (("scalar", None), ("list", list), ("tuple", tuple), ("set", set), ("frozenset", frozenset)):
                        n += 1
                        try:
                            if cont is None:
                                pruned = A.filter_val("==", rep(d * day), b(lo * day), b(hi * day))
                            else:
                                pruned = A.filter_val("in", cont([rep(d * day), rep(9 * day)]), b(lo * day), b(hi * day))
                        except Exception as e:
                            # a refusal loses nothing
                            continue
                        if pruned:
                            fails.append({"kind": "lattice_unsound_prune", "func": "filter_val", "args": ["in" if cont else "==", "%s of day %d as %s" % (cname, d, rname),
                                                                                                           "datetime64[%s] day %d" % (unit, lo), "day %d" % hi], "witness": "day %d" % d})
    return n, fails


# ---------------------------------------------------------------------------------------------- datasets

_state = {}


def setup_worker():
    import fastparquet.api as A
    from vf.mon import contracts
    ev = []
    _state["events"] = ev

    def post_stats(c, a, k, out, st):
        if out:
            ev.append(("stats", id(a[0]), a[1]))
        c.checked += 1

    def post_cats(c, a, k, out, st):
        if out:
            ev.append(("cats", id(a[0]), a[1]))
        c.checked += 1

    _state["c_stats"] = contracts.attach(A, "filter_out_stats", post=post_stats)
    _state["c_cats"] = contracts.attach(A, "filter_out_cats", post=post_cats)


def _sort_frame(df, pcols):
    vc = [c for c in df.columns if c not in pcols and c != "rid"]
    for c in vc:
        try:
            return df.sort_values(c, kind="stable", na_position="last").reset_index(drop=True)
        except Exception:
            continue
    return df


def prepare(case):
    """Write the dataset; return (pf, flat, rg_rows(list of index arrays), cols(normalised), colinfo, path) or None."""
    import pandas as pd
    import fastparquet
    from vf.props import common as C
    from vf.mon import predicate as P
    df = D.build_dataset_frame(case)
    opts = case["opts"]
    pcols = opts.get("partition_on") or []
    if case.get("sorted"):
        ix = df.index
        df = _sort_frame(df, pcols)
        df.index = ix
    scheme = opts.get("file_scheme", "simple")
    path = C.fresh_path(".parq" if scheme == "simple" else "")
    with C.writer_globals(case.get("page_size"), case.get("dpv")):
        fastparquet.write(path, df, **C.write_kwargs(opts))
    pf = fastparquet.ParquetFile(path)
    if case.get("new_style_stats") and pf.file_scheme in ("hive", "drill", "flat"):
        # the layout of other writers: bounds only in min_value / max_value, the deprecated min / max absent
        for rg in pf.row_groups:
            for ch in rg.columns:
                st = ch.meta_data.statistics
                if st is not None and (st.min is not None or st.max is not None):
                    st.min_value, st.max_value = st.min, st.max
                    st.min = None
                    st.max = None
        pf._write_common_metadata()
        pf = fastparquet.ParquetFile(path)
    flat = pf.to_pandas(index=False)
    nr = [rg.num_rows for rg in pf.row_groups]
    offs = np.concatenate([[0], np.cumsum(nr)]).astype(int)
    if offs[-1] != len(flat):
        raise RuntimeError("row group rows do not add up")
    rg_rows = [list(range(offs[i], offs[i + 1])) for i in range(len(nr))]
    cols = P.frame_columns(flat)
    colinfo = {}
    for c in flat.columns:
        if c == "rid" and len(flat.columns) > 2:
            if zlib.crc32((c + case["id"]).encode()) % 3:
                continue
        s = flat[c]
        raw = s.astype(object).tolist() if not (s.dtype.kind in "Mm" if hasattr(s.dtype, "kind") else False) else list(s)
        if isinstance(s.dtype, pd.DatetimeTZDtype):
            raw = list(s)
        present = [v for v, nv in zip(raw, cols[str(c)]) if nv is not None]
        try:
            bounds = []
            for rows in rg_rows:
                pv = [(cols[str(c)][i], raw[i]) for i in rows if cols[str(c)][i] is not None]
                if pv:
                    keyf = (lambda t: t[0][1]) if isinstance(pv[0][0], tuple) else (lambda t: t[0])
                    bounds.append((min(pv, key=keyf)[1], max(pv, key=keyf)[1]))
        except TypeError:
            bounds = []
        if present or str(c) in (pf.cats or {}):
            colinfo[str(c)] = (present[:200], bounds[:6])
    return pf, flat, rg_rows, cols, colinfo, path


def run_case(case):
    import fastparquet
    import fastparquet.api as A
    from vf.props import common as C
    from vf.mon import predicate as P
    counters = {}
    res = {"features": [], "nontrivial": False, "failures": [], "counters": counters}
    if case.get("lattice"):
        n, fails = run_lattice()
        counters["lattice_points"] = n
        res["failures"] = fails
        res["outcome"] = "ok"
        res["nontrivial"] = True
        res["features"] = ["lattice"]
        res["sample"] = {"lattice_points": n}
        return res
    path = None
    try:
        try:
            pf, flat, rg_rows, cols, colinfo, path = prepare(case)
        except Exception as e:
            res["outcome"] = "rejected"
            res["reject"] = C.exc_shape(e)
            counters["prepare_failed"] = 1
            return res
        nrg = len(rg_rows)
        if not colinfo or nrg == 0:
            res["outcome"] = "skip"
            return res
        rgid = {id(rg): i for i, rg in enumerate(pf.row_groups)}
        rids = flat["rid"].tolist()
        rng = np.random.default_rng([case["pseed"], 5])
        feats = set()
        ev = _state["events"]
        last = None
        todo = []
        for k in range(case.get("nprog", 40)):
            prog = FG.make_program(rng, colinfo)
            todo.append((k, prog, prog, 0))
            if k % 4 == 0:
                # the same program with the value collections of 'in' / 'not in' handed over as tuples, sets, arrays ...: decided and read
                # on its own (the library may legitimately keep other row groups for it); the oracle keeps judging the list form
                aprog, n_other = FG.api_form(prog, k // 4)
                if n_other:
                    todo.append((k, prog, aprog, n_other))
        for (k, prog, fprog, n_other) in todo:
            desc = FG.describe(fprog)
            del ev[:]
            try:
                kept = A.filter_row_groups(pf, fprog)
            except Exception as e:
                if n_other and isinstance(e, (TypeError, ValueError)):
                    counters["value_collection_form_refused"] = counters.get("value_collection_form_refused", 0) + 1
                    continue
                counters["refused"] = counters.get("refused", 0) + 1
                counters["refused:" + type(e).__name__] = counters.get("refused:" + type(e).__name__, 0) + 1
                continue
            events = list(ev)
            kept_idx = [rgid[id(rg)] for rg in kept]
            f32 = {str(c) for c in flat.columns if str(flat[c].dtype) == "float32"}
            import pandas as pd
            ocat = {str(c) for c in flat.columns if isinstance(flat[c].dtype, pd.CategoricalDtype) and flat[c].dtype.ordered}
            try:
                P.judgeable(prog, flat)
                groups = P.normalise_program(P.adapt_program(prog, f32, ocat))
                explained_rg = set()
                # (b) decision-level (first, so that result-level failures it explains are not reported twice)
                for (which, rid_, and_filters) in events:
                    i = rgid.get(rid_)
                    if i is None:
                        continue
                    and_filters = P.adapt_program(list(and_filters), f32, ocat)
                    w = P.group_has_qualifying(list(and_filters), cols, rg_rows[i])
                    counters["decisions_true_checked"] = counters.get("decisions_true_checked", 0) + 1
                    if w is not None:
                        explained_rg.add(i)
                        res["failures"] += culprits(which, pf, i, list(and_filters), cols, rg_rows[i], flat, desc, rids)
                # (a) result-level: every pruned row group has no qualifying row
                pruned = [i for i in range(nrg) if i not in kept_idx]
                for i in pruned:
                    if i in explained_rg:
                        continue
                    for g in groups:
                        w = P.group_has_qualifying(g, cols, rg_rows[i])
                        if w is not None:
                            res["failures"].append({"kind": "pruned_row_group_has_qualifying_row", "program": desc, "row_group": i,
                                                    "rid": int(rids[w]), "row": {c: repr(cols[c][w]) for c, _, _ in g},
                                                    "col_dtypes": {c: str(flat[c].dtype) for c, _, _ in g},
                                                    "partition_cols": list(pf.cats), "scheme": pf.file_scheme})
                            break
            except P.Unorderable:
                counters["unorderable"] = counters.get("unorderable", 0) + 1
                continue
            counters["programs_judged"] = counters.get("programs_judged", 0) + 1
            if case.get("new_style_stats"):
                counters["programs_on_new_style_statistics"] = counters.get("programs_on_new_style_statistics", 0) + 1
            if case.get("suffix_named_partition"):
                counters["programs_on_suffix_named_partitions"] = counters.get("programs_on_suffix_named_partitions", 0) + 1
            if pruned:
                counters["programs_with_pruning"] = counters.get("programs_with_pruning", 0) + 1
                counters["row_groups_pruned"] = counters.get("row_groups_pruned", 0) + len(pruned)
            # (c) API-level: whole row groups, in order
            exp_rids = [rids[j] for i in kept_idx for j in rg_rows[i]]
            if kept_idx != sorted(kept_idx):
                res["failures"].append({"kind": "kept_row_groups_out_of_order", "program": desc, "kept": kept_idx})
            if k % 4 == 0:
                try:
                    got = pf.to_pandas(columns=["rid"], filters=fprog, index=False)
                    cnt = int(pf.count(filters=fprog))
                    it = [int(x) for part in pf.iter_row_groups(filters=fprog, columns=["rid"], index=False) for x in part["rid"].tolist()]
                    if n_other:
                        counters["api_reads_with_value_collections_other_than_lists"] = counters.get("api_reads_with_value_collections_other_than_lists", 0) + 1
                    counters["api_reads_compared"] = counters.get("api_reads_compared", 0) + 1
                    if got["rid"].tolist() != exp_rids:
                        res["failures"].append({"kind": "filtered_read_not_concatenation_of_kept_groups", "program": desc,
                                                "expected_n": len(exp_rids), "got_n": len(got)})
                    if cnt != len(exp_rids):
                        res["failures"].append({"kind": "filtered_count_mismatch", "program": desc, "expected": len(exp_rids), "got": cnt})
                    if it != exp_rids:
                        res["failures"].append({"kind": "filtered_iter_mismatch", "program": desc, "expected_n": len(exp_rids), "got_n": len(it)})
                except Exception as e:
                    res["failures"].append({"kind": "filtered_read_raised_after_pruning_succeeded", "program": desc, **C.exc_shape(e)})
            ops = tuple(sorted({op for g in groups for _, op, _ in g}))
            fams = tuple(sorted({str(flat[c].dtype)[:6] for g in groups for c, _, _ in g}))
            if nrg >= 2:
                feats.add(str((ops, fams, len(groups), bool(pruned), any(c in pf.cats for g in groups for c, _, _ in g))))
            last = desc
        res["outcome"] = "ok"
        res["nontrivial"] = bool(feats)
        res["features"] = sorted(feats)
        res["sample"] = {"rows": len(flat), "row_groups": nrg, "scheme": pf.file_scheme, "partitions": list(pf.cats), "last_program": last}
        return res
    finally:
        C.cleanup(path)


def culprits(which, pf, i, group, cols, rows, flat, desc, rids):
    """Attribute an unsound decision to single conditions: c is a culprit when the library prunes on [c] alone although a row
    of the row group satisfies c."""
    import fastparquet.api as A
    from vf.mon import predicate as P
    fn = getattr(A, "filter_out_" + which)
    fn = getattr(fn, "__vf_orig__", fn)
    rg = pf.row_groups[i]
    out = []
    for cond in group:
        try:
            alone = fn(rg, [cond], pf.schema) if which == "stats" else fn(rg, [cond], pf.partition_meta)
        except Exception:
            alone = False
        if not alone:
            continue
        w = P.group_has_qualifying([cond], cols, rows)
        if w is None:
            continue
        c, op, v = cond
        present = [cols[c][j] for j in rows if cols[c][j] is not None]
        try:
            key = (lambda t: t[1]) if present and isinstance(present[0], tuple) else (lambda t: t)
            lo, hi = min(present, key=key), max(present, key=key)
        except TypeError:
            lo = hi = None
        nv = P.norm_const(op, v)
        st = rg.columns[[".".join(cc.meta_data.path_in_schema) for cc in rg.columns].index(c)].meta_data.statistics if which == "stats" and c in [".".join(cc.meta_data.path_in_schema) for cc in rg.columns] else None
        out.append({"kind": "unsound_decision", "func": "filter_out_" + which, "op": op, "column": c, "col_dtype": str(flat[c].dtype),
                    "const": FG.describe([cond])[0][2], "row_group": i, "rid": int(rids[w]), "cell": repr(cols[c][w]),
                    "chunk_min": repr(lo), "chunk_max": repr(hi), "n_missing": sum(1 for j in rows if cols[c][j] is None),
                    "bound_in_list": bool(op == "not in" and (lo in nv or hi in nv)),
                    "stat_min": repr(getattr(st, "min", None))[:60] if st is not None else None,
                    "stat_max": repr(getattr(st, "max", None))[:60] if st is not None else None,
                    "program": desc, "partition_cols": list(pf.cats), "scheme": pf.file_scheme})
    if not out:
        w = P.group_has_qualifying(group, cols, rows)
        out.append({"kind": "unsound_decision", "func": "filter_out_" + which, "op": "joint", "and_group": FG.describe(group),
                    "row_group": i, "rid": int(rids[w]), "program": desc, "partition_cols": list(pf.cats), "scheme": pf.file_scheme})
    return out


def coverage_extra(agg):
    feats = set()
    for r in agg.results.values():
        for f in r.get("features") or []:
            feats.add(str(f))
    return {"distinct_nontrivial": len(feats)}


def required(tier):
    return {"programs_judged": 3000, "programs_with_pruning": 300, "decisions_true_checked": 500, "api_reads_compared": 500,
            "lattice_points": 1000, "programs_on_suffix_named_partitions": 100, "programs_on_new_style_statistics": 300,
            "api_reads_with_value_collections_other_than_lists": 50}
