"""C13 - row-level filtering returns exactly the rows that satisfy the predicate (DESIGN.md 5/C13)."""
import numpy as np

ID = "C13"
LEVEL = "exploration"
FLAVOUR = "plain"
TECHNIQUE = "runtime monitor: selected row ids and aligned cells vs a three-valued independent predicate evaluator; boolean-mask reads vs the mask"
RULE = ("C05 datasets (multi-page chunks, v1/v2 pages, nulls, categoricals, hive/drill partitions) x ~30 generated filter programs each, "
        "read with row_filter=True and a random output column set, plus random boolean masks; must-select rows must be present, "
        "must-reject rows absent, order preserved, every column aligned, count() equal; non-trivial = program accepted and judged on "
        ">=1 must/reject row; distinct = distinct (operator set, dtype families, program shape, partition cond, mask kind) tuples")
ASSUMPTIONS = ["rows whose outcome hinges on a missing-like cell under a negative operator (!=, not in) are don't-care",
               "ground truth = unfiltered read of the same handle", "a filtered call that raises is counted as refused, not judged"]
CASE_TIMEOUT = 120

from vf.gen import datasets as D
from vf.gen import filters as FG
from vf.props import c05


def gen_cases(tier, seed):
    rng = np.random.default_rng([seed, 1313])
    cases = []
    n = 200 if tier == "quick" else 4000
    for i in range(n):
        c = D.random_dataset(rng, "D/%d/%d" % (seed, i), pkinds=D.BENIGN_PKINDS + ["pdt", "pfloat"],
                             value_kinds=c05.VALUE_KINDS, max_rows=120, min_rows=1, max_cols=4)
        c["opts"]["has_nulls"] = [True, True, "infer"][i % 3]
        c["page_size"] = [None, 64, 64, 1024][i % 4]
        c["pseed"] = int(rng.integers(0, 2 ** 31))
        c["nprog"] = 30
        cases.append(c)
    # 64-bit integers as pandas nullable and as plain columns, with and without nulls, holding neighbours beyond 2**53; v1 pages
    for j in range(12 if tier == "quick" else 200):
        kinds = [["Int64", "int64"], ["UInt64", "uint64"], ["Int64", "UInt64"]][j % 3]
        cols = [{"name": "rid", "kind": "rid"}] + [{"name": "v%d" % k_, "kind": kd, "nulls": ["none", "p20", "alt"][(j + k_) % 3] if kd[0] in "IU" else "none", "vals": "edge"}
                                                   for k_, kd in enumerate(kinds)]
        cases.append({"id": "NI/%d/%d" % (seed, j), "frame": {"seed": int(rng.integers(0, 2 ** 31)), "nrows": int(rng.integers(12, 60)), "cols": cols, "index": None},
                      "opts": {"file_scheme": ["simple", "hive"][j % 2], "row_group_offsets": [None, 7, 20][j % 3], "has_nulls": True, "stats": True},
                      "page_size": [None, 64][j % 2], "dpv": 1, "pseed": int(rng.integers(0, 2 ** 31)), "nprog": 40})
    # time columns stored in seconds / milliseconds / microseconds, filtered with constants between two representable values
    for j in range(16 if tier == "quick" else 200):
        kinds_ = [["dt_s", "td_s"], ["dt_ms", "td_ms"], ["dt_us", "dt_s"], ["td_us", "dt_ms"]][j % 4]
        cols = [{"name": "rid", "kind": "rid"}] + [{"name": "v%d" % k_, "kind": kd, "nulls": ["none", "p20"][(j + k_) % 2], "vals": "small"} for k_, kd in enumerate(kinds_)]
        cases.append({"id": "TU/%d/%d" % (seed, j), "frame": {"seed": int(rng.integers(0, 2 ** 31)), "nrows": int(rng.integers(12, 40)), "cols": cols, "index": None},
                      "opts": {"file_scheme": ["simple", "hive"][j % 2], "row_group_offsets": [None, 7][j % 2], "has_nulls": True, "stats": True},
                      "page_size": None, "dpv": 1, "pseed": int(rng.integers(0, 2 ** 31)), "nprog": 6, "time_programs": True})
    # one handle kept across edits of the dataset made through it: the same filters before and after write_row_groups / remove_row_groups
    for j in range(30 if tier == "quick" else 500):
        c = D.random_dataset(rng, "KH/%d/%d" % (seed, j), scheme=["simple", "hive", "hive", "drill"][j % 4], pkinds=D.BENIGN_PKINDS,
                             value_kinds=["int64", "float64", "str", "Int32", "dt_ns", "bool"], max_rows=60, min_rows=8, max_cols=3)
        c["opts"]["has_nulls"] = True
        c["dpv"] = 1
        c["page_size"] = None
        c["pseed"] = int(rng.integers(0, 2 ** 31))
        if not isinstance(c["opts"].get("row_group_offsets"), int) or c["opts"]["row_group_offsets"] > 10:
            c["opts"]["row_group_offsets"] = [3, 7, 10][j % 3]
        c["frame"]["index"] = None
        c["kept_handle"] = {"append_seed": int(rng.integers(0, 2 ** 31)), "append_rows": int(rng.integers(4, 30)), "remove": [[0], [1], [0, 2]][j % 3]}
        cases.append(c)
    return cases


def run_kept_handle(case, st, colinfo, path, rng):
    """Same filters on ONE handle: fresh, again, after write_row_groups on it, after remove_row_groups on it (fresh open = the model)."""
    import copy
    import fastparquet
    from vf.props import common as C
    from vf.mon import predicate as P
    res, counters, pf = st["res"], st["counters"], st["pf"]
    f32 = {str(c) for c in st["flat"].columns if str(st["flat"][c].dtype) == "float32"}
    progs = []
    tries = 0
    while len(progs) < 5 and tries < 60:
        tries += 1
        prog = FG.make_program(rng, colinfo)
        try:
            P.judgeable(prog, st["flat"])
            P.eval_rows(P.adapt_program(prog, f32, set()), st["cols"], st["n"])
            pf.to_pandas(columns=["rid"], filters=prog, row_filter=True, index=False)
        except Exception:
            continue
        progs.append(prog)
    kh = case["kept_handle"]
    fr = copy.deepcopy(case["frame"])
    fr["seed"] = kh["append_seed"]
    fr["nrows"] = kh["append_rows"]
    fr["rid0"] = case["frame"]["nrows"]
    dfa = D.build_dataset_frame({"frame": fr})
    steps = ["again", "write_row_groups", "remove_row_groups"]
    for step in steps:
        if step == "write_row_groups":
            try:
                pf.write_row_groups(dfa, row_group_offsets=[0, max(1, len(dfa) // 2)] if len(dfa) > 1 else None)
            except Exception as e:
                counters["kept_handle_edit_refused"] = counters.get("kept_handle_edit_refused", 0) + 1
                res.setdefault("notes", []).append({"step": step, **C.exc_shape(e)})
                continue
        elif step == "remove_row_groups":
            if pf.file_scheme == "simple":
                continue
            rgs = [pf.row_groups[i] for i in kh["remove"] if i < len(pf.row_groups) - 1]
            if not rgs:
                continue
            try:
                pf.remove_row_groups(rgs)
            except Exception as e:
                counters["kept_handle_edit_refused"] = counters.get("kept_handle_edit_refused", 0) + 1
                res.setdefault("notes", []).append({"step": step, **C.exc_shape(e)})
                continue
        if step != "again":
            # the model is what a fresh open reads without filters
            fresh = fastparquet.ParquetFile(path)
            flat = fresh.to_pandas(index=False)
            nr = [rg.num_rows for rg in fresh.row_groups]
            offs = np.concatenate([[0], np.cumsum(nr)]).astype(int)
            rids = flat["rid"].tolist()
            st = dict(st, flat=flat, cols=P.frame_columns(flat), rids=rids, pos={r: i for i, r in enumerate(rids)}, n=len(flat),
                      rg_rows=[list(range(offs[i], offs[i + 1])) for i in range(len(nr))])
            counters["kept_handle_edits"] = counters.get("kept_handle_edits", 0) + 1
        # the order turns round at every step, so the filters used last before an edit are the first ones used after it
        order = list(enumerate(progs))
        if steps.index(step) % 2:
            order.reverse()
        for pi, prog in order:
            desc = FG.describe(prog)
            try:
                verdicts = P.eval_rows(P.adapt_program(prog, f32, set()), st["cols"], st["n"])
            except Exception:
                continue
            ocols = ["rid"] + [str(c) for c in st["flat"].columns if c != "rid"][:2]
            try:
                if pi % 2:
                    cnt = int(pf.count(filters=prog, row_filter=True))
                    got = pf.to_pandas(columns=ocols, filters=prog, row_filter=True, index=False)
                else:
                    got = pf.to_pandas(columns=ocols, filters=prog, row_filter=True, index=False)
                    cnt = int(pf.count(filters=prog, row_filter=True))
            except Exception as e:
                if isinstance(e, TypeError) or C.exc_shape(e).get("where") == "util.py:val_from_meta":
                    counters["refused"] = counters.get("refused", 0) + 1       # same reading of refusals as the main family
                    continue
                groups_ = P.normalise_program(prog)
                res["failures"].append({"kind": "filtered_read_raised", "program": desc, "kept_handle_step": step, "read_columns_multi_page": [],
                                        "ops": sorted({op for g in groups_ for _, op, _ in g}), **st["info"], **C.exc_shape(e)})
                continue
            _judge(st, prog, desc, got, cnt, ocols, verdicts, extra_ctx={"kept_handle_step": step})
            counters["kept_handle_programs_judged"] = counters.get("kept_handle_programs_judged", 0) + 1


def run_case(case):
    import pandas as pd
    import fastparquet
    from vf.props import common as C
    from vf.mon import predicate as P
    from vf.mon import tables as T
    counters = {}
    res = {"features": [], "nontrivial": False, "failures": [], "counters": counters}
    path = None
    try:
        try:
            pf, flat, rg_rows, cols, colinfo, path = c05.prepare(case)
        except Exception as e:
            res["outcome"] = "rejected"
            res["reject"] = C.exc_shape(e)
            counters["prepare_failed"] = 1
            return res
        n = len(flat)
        if not colinfo or n == 0:
            res["outcome"] = "skip"
            return res
        rids = flat["rid"].tolist()
        pos = {r: i for i, r in enumerate(rids)}
        rng = np.random.default_rng([case["pseed"], 13])
        allcols = [str(c) for c in flat.columns]
        f32 = {str(c) for c in flat.columns if str(flat[c].dtype) == "float32"}
        ocat = {str(c) for c in flat.columns if isinstance(flat[c].dtype, pd.CategoricalDtype) and flat[c].dtype.ordered}
        feats = set()
        last = None
        mp = multi_page_columns(pf)
        info = {"scheme": pf.file_scheme, "partition_cols": list(pf.cats), "dpv": case.get("dpv"), "page_size": case.get("page_size"),
                "multi_page_columns": sorted(mp)}
        counters["datasets_multi_page"] = 1 if mp else 0
        counters["datasets_single_page"] = 0 if mp else 1
        if case.get("kept_handle"):
            st = {"res": res, "counters": counters, "feats": feats, "flat": flat, "cols": cols, "rids": rids, "pos": pos, "rg_rows": rg_rows, "mp": mp, "pf": pf,
                  "info": info, "n": n}
            run_kept_handle(case, st, colinfo, path, rng)
            res["outcome"] = "ok"
            res["nontrivial"] = bool(feats)
            res["features"] = sorted(feats)
            res["sample"] = {"rows": n, "row_groups": len(rg_rows), **info, "kept_handle": case["kept_handle"]}
            return res
        explicit = []
        if case.get("time_programs"):
            # constants that carry a fraction finer than the unit a time column is stored in, under every operator
            for c_ in flat.columns:
                dt_ = flat[c_].dtype
                if getattr(dt_, "kind", "") in "Mm" and not str(dt_).endswith("[ns]") and flat[c_].notna().any():
                    vals_ = flat[c_].dropna()
                    v_ = vals_.iloc[len(vals_) // 2]
                    step = pd.Timedelta(250, "ms") if "[s" in str(dt_) else pd.Timedelta(250, "us") if "[ms" in str(dt_) else pd.Timedelta(250, "ns")
                    for const_ in (v_ + step, v_ - step, v_ + 3 * step):
                        for op_ in ("<", "<=", ">", ">=", "==", "!="):
                            explicit.append([(str(c_), op_, const_)])
                    explicit.append([[(str(c_), ">=", v_ - step), (str(c_), "<", v_ + step)], [(str(c_), "==", v_ + step)]])
            counters["explicit_sub_unit_time_programs"] = len(explicit)
        for k in range(max(case.get("nprog", 30), len(explicit))):
            if explicit:
                prog = explicit.pop()
            elif k % 6 == 5:
                # custom boolean mask
                mk = ["rand", "none", "all", "one", "alt"][int(rng.integers(0, 5))]
                mask = {"rand": rng.random(n) < 0.4, "none": np.zeros(n, bool), "all": np.ones(n, bool),
                        "one": np.arange(n) == int(rng.integers(0, n)), "alt": np.arange(n) % 2 == 0}[mk]
                ocols = [allcols[i] for i in rng.permutation(len(allcols))[:int(rng.integers(1, len(allcols) + 1))]]
                if "rid" not in ocols:
                    ocols.append("rid")
                try:
                    got = pf.to_pandas(columns=ocols, row_filter=mask, index=False)
                except Exception as e:
                    res["failures"].append({"kind": "mask_read_raised", "read_columns_multi_page": sorted(set(ocols) & mp), "mask": mk, "n_true": int(mask.sum()), "columns": ocols,
                                            "col_dtypes": {c: str(flat[c].dtype) for c in ocols}, **info, **C.exc_shape(e)})
                    continue
                exp = flat.loc[mask, ocols].reset_index(drop=True)
                fl = T.same_table(exp, got.reset_index(drop=True), check_index=False, cat_strict=False)
                for f in fl:
                    f.update({"mask": mk, "n_true": int(mask.sum()), "read_columns_multi_page": sorted(set(ocols) & mp), **info})
                    if f.get("column") in flat:
                        f["col_dtype"] = str(flat[f["column"]].dtype)
                res["failures"] += fl
                counters["masks_compared"] = counters.get("masks_compared", 0) + 1
                feats.add(str(("mask", mk, case.get("dpv"), bool(case.get("page_size")))))
                continue
            if not (case.get("time_programs") and counters.get("explicit_sub_unit_time_programs") and k < counters["explicit_sub_unit_time_programs"]):
                prog = FG.make_program(rng, colinfo)
            desc = FG.describe(prog)
            ocols = [allcols[i] for i in rng.permutation(len(allcols))[:int(rng.integers(1, len(allcols) + 1))]]
            if "rid" not in ocols:
                ocols.append("rid")
            try:
                P.judgeable(prog, flat)
                verdicts = P.eval_rows(P.adapt_program(prog, f32, ocat), cols, n)
            except P.Unorderable:
                counters["unorderable"] = counters.get("unorderable", 0) + 1
                continue
            # (the value collections of 'in' / 'not in' go over as tuples, sets, arrays ... as well as lists)
            aprog, n_other = FG.api_form(prog, k)
            if n_other:
                counters["programs_with_value_collections_other_than_lists"] = counters.get("programs_with_value_collections_other_than_lists", 0) + 1
            try:
                try:
                    got = pf.to_pandas(columns=ocols, filters=aprog, row_filter=True, index=False)
                    cnt = int(pf.count(filters=aprog, row_filter=True))
                except (TypeError, ValueError):
                    if not n_other:
                        raise
                    # a collection of that kind refused (raised, nothing wrong returned): the program is judged in its list form
                    counters["value_collection_form_refused"] = counters.get("value_collection_form_refused", 0) + 1
                    got = pf.to_pandas(columns=ocols, filters=prog, row_filter=True, index=False)
                    cnt = int(pf.count(filters=prog, row_filter=True))
            except Exception as e:
                counters["refused"] = counters.get("refused", 0) + 1
                counters["refused:" + type(e).__name__] = counters.get("refused:" + type(e).__name__, 0) + 1
                shape_ = C.exc_shape(e)
                if not isinstance(e, TypeError) and shape_.get("where") != "util.py:val_from_meta":
                    # (val_from_meta: a constant of another family could not be turned into the partition column's type - a refusal too)
                    # TypeError (numpy's UFuncTypeError included) is the library's way of refusing a comparison between types that have
                    # no order / equality; anything else on a judgeable program is a read that should have worked
                    groups_ = P.normalise_program(prog)
                    fcols_ = {c for g in groups_ for c, _, _ in g}
                    res["failures"].append({"kind": "filtered_read_raised", "program": desc, "read_columns_multi_page": sorted((set(ocols) | fcols_) & mp),
                                            "filter_dtypes": {c: str(flat[c].dtype) for c in fcols_ if c in flat},
                                            "filter_columns_with_nulls": sorted(c for c in fcols_ if c in flat and bool(flat[c].isna().any())),
                                            "ops": sorted({op for g in groups_ for _, op, _ in g}), **info, **C.exc_shape(e)})
                continue
            st = {"res": res, "counters": counters, "feats": feats, "flat": flat, "cols": cols, "rids": rids, "pos": pos, "rg_rows": rg_rows, "mp": mp, "pf": pf,
                  "info": info, "n": n}
            _judge(st, prog, desc, got, cnt, ocols, verdicts)
            last = desc
        res["outcome"] = "ok"
        res["nontrivial"] = bool(feats)
        res["features"] = sorted(feats)
        res["sample"] = {"rows": n, "row_groups": len(rg_rows), **info, "last_program": last}
        return res
    finally:
        C.cleanup(path)


def _judge(st, prog, desc, got, cnt, ocols, verdicts, extra_ctx=None):
    """Compare one filtered read (and the filtered count) with the row-by-row verdicts of the model."""
    from vf.mon import predicate as P
    from vf.mon import tables as T
    res, counters, feats = st["res"], st["counters"], st["feats"]
    flat, cols, rids, pos, rg_rows, mp, pf, info, n = st["flat"], st["cols"], st["rids"], st["pos"], st["rg_rows"], st["mp"], st["pf"], st["info"], st["n"]
    info = dict(info, **(extra_ctx or {}))
    counters["programs_judged"] = counters.get("programs_judged", 0) + 1
    grids = [int(x) for x in got["rid"].tolist()]
    gset = set(grids)
    groups = P.normalise_program(prog)
    flat_list = bool(prog) and isinstance(prog[0][0], str)
    pcond = any(c in pf.cats for g in groups for c, _, _ in g)
    fcols = {c for g in groups for c, _, _ in g}
    ctx = {"program": desc, "read_columns_multi_page": sorted((set(ocols) | fcols) & mp), "flat_list": flat_list, "n_conditions": sum(len(g) for g in groups), "n_groups": len(groups),
           "partition_condition": pcond, "ops": sorted({op for g in groups for _, op, _ in g}), **info}
    missing = [rids[i] for i in range(n) if verdicts[i] == P.MUST and rids[i] not in gset]
    extra = [r for r in grids if r in pos and verdicts[pos[r]] == P.REJECT]
    unknown = [r for r in grids if r not in pos]
    if missing:
        i = pos[missing[0]]
        # can the (test-pinned) 'not in' pruning explain EVERY lost row?  It prunes a row group when a 'not in' list holds the
        # smallest or the largest value of the column in that group.
        def _notin_explains(ri):
            rg = next((rows_ for rows_ in rg_rows if ri in rows_), None)
            if rg is None:
                return False
            for g in groups:
                for c, op, v in g:
                    if op != "not in" or c not in cols:
                        continue
                    cells = [cols[c][j] for j in rg if cols[c][j] is not None]
                    try:
                        lo, hi = min(cells), max(cells)
                        listed = [P.norm(x) for x in v]
                    except Exception:
                        continue
                    if lo in listed or hi in listed:
                        return True
            return False
        res["failures"].append({"kind": "qualifying_row_not_returned", "n": len(missing), "rid": int(missing[0]),
                                "row": {c: repr(cols[c][i]) for g in groups for c, _, _ in g},
                                "every_lost_row_in_a_group_whose_bound_is_in_a_not_in_list": all(_notin_explains(pos[r_]) for r_ in missing), **ctx})
    if extra:
        i = pos[extra[0]]
        res["failures"].append({"kind": "non_qualifying_row_returned", "n": len(extra), "rid": int(extra[0]),
                                "row": {c: repr(cols[c][i]) for g in groups for c, _, _ in g}, **ctx})
    if unknown or len(gset) != len(grids):
        res["failures"].append({"kind": "row_duplicated_or_unknown", "n_unknown": len(unknown), "n_dup": len(grids) - len(gset), **ctx})
    if [pos[r] for r in grids if r in pos] != sorted(pos[r] for r in grids if r in pos):
        res["failures"].append({"kind": "rows_out_of_order", **ctx})
    if cnt != len(got):
        res["failures"].append({"kind": "count_differs_from_rows_returned", "count": cnt, "rows": len(got), **ctx})
    # alignment of every requested column with the selected rids
    if not unknown and len(gset) == len(grids):
        exp = flat.iloc[[pos[r] for r in grids]][ocols].reset_index(drop=True)
        fl = T.same_table(exp, got.reset_index(drop=True), check_index=False, cat_strict=False)
        for f in fl:
            f.update(ctx)
            f["kind"] = "misaligned_" + f["kind"]
            if f.get("column") in flat:
                f["col_dtype"] = str(flat[f["column"]].dtype)
        res["failures"] += fl
    n_judged = sum(1 for v in verdicts if v != P.DONTCARE)
    counters["rows_judged"] = counters.get("rows_judged", 0) + n_judged
    counters["rows_dontcare"] = counters.get("rows_dontcare", 0) + (n - n_judged)
    counters["rows_selected"] = counters.get("rows_selected", 0) + len(grids)
    if pcond:
        counters["programs_with_partition_condition"] = counters.get("programs_with_partition_condition", 0) + 1
    if flat_list and ctx["n_conditions"] > 1:
        counters["flat_multi_condition_programs"] = counters.get("flat_multi_condition_programs", 0) + 1
    if n_judged:
        fams = tuple(sorted({str(flat[c].dtype)[:6] for g in groups for c, _, _ in g}))
        feats.add(str((tuple(ctx["ops"]), fams, len(groups), flat_list, pcond, 0 < len(grids) < n)))


def multi_page_columns(pf):
    """Names of columns that have at least one chunk with more than one data page (walks the page headers)."""
    from fastparquet.cencoding import ThriftObject, NumpyIO
    out = set()
    for rg in pf.row_groups:
        fn = pf.row_group_filename(rg)
        with open(fn, "rb") as f:
            for col in rg.columns:
                md = col.meta_data
                off = min(md.dictionary_page_offset or md.data_page_offset, md.data_page_offset)
                f.seek(off)
                b = f.read(md.total_compressed_size)
                io = NumpyIO(b)
                npages = 0
                while io.tell() < len(b):
                    ph = ThriftObject.from_buffer(io, "PageHeader")
                    if ph.type in (0, 3):
                        npages += 1
                    io.seek(ph.compressed_page_size, 1)
                if npages > 1:
                    out.add(".".join(md.path_in_schema))
    return out


coverage_extra = c05.coverage_extra


def required(tier):
    return {"programs_judged": 2000, "masks_compared": 300, "programs_with_partition_condition": 100, "flat_multi_condition_programs": 200,
            "rows_selected": 5000, "kept_handle_edits": 30, "kept_handle_programs_judged": 200, "explicit_sub_unit_time_programs": 300,
            "programs_with_value_collections_other_than_lists": 300}
