"""C01 - write -> read round trip under every option tuple (DESIGN.md 5/C01)."""
import itertools
import os

import numpy as np

ID = "C01"
LEVEL = "exploration"
FLAVOUR = "plain"
TECHNIQUE = "runtime monitor: API-boundary table-equality oracle + view-aliasing contract on dataframe.empty, over generated frames x option tuples"
RULE = ("core lattice (every supported dtype x null pattern x boundary row count x page version x paging x nullability "
        "mode, single column) + seeded random multi-column frames with random option tuples; a case is non-trivial "
        "when write succeeded, >=1 row was read back and compared cell by cell; distinct = distinct "
        "(kinds, null patterns, row class, dpv, paging, has_nulls, codec class, scheme, index kind, times, stats) tuples")
ASSUMPTIONS = ["pandas/numpy behave as documented", "cramjam codecs are shared by writer and reader (symmetric codec defect invisible)",
               "float NaN and missing are the same thing at the pandas level (NaN == NULL for float cells)"]
CASE_TIMEOUT = 120

from vf.gen import frames as F
from vf.gen import options as O


def _rowclass(n):
    if n == 0:
        return "0"
    if n == 1:
        return "1"
    if n < 8:
        return "<8"
    if n <= 9:
        return "~8"
    if n < 63:
        return "<64"
    if n <= 65:
        return "~64"
    if n <= 129:
        return "~128"
    if n < 8191:
        return "<8192"
    if n <= 8193:
        return "~8192"
    return ">8192"


def _patterns_for(kind):
    return F.NULL_PATTERNS if F.nullable_kind(kind) else ["none"]


def gen_cases(tier, seed):
    cases = []
    rows_cycle = F.BOUNDARY_ROWS
    combos = list(itertools.product([1, 2], [None, 64], [True, False, "infer"]))
    k = 0
    for kind in F.ALL_KINDS:
        for pat in _patterns_for(kind):
            for ci, (dpv, ps, hn) in enumerate(combos):
                if tier == "quick":
                    ns = [rows_cycle[(k + ci) % len(rows_cycle)]]
                else:
                    ns = rows_cycle
                k += 1
                for n in ns:
                    col = {"name": "c", "kind": kind, "nulls": pat}
                    if kind in F.DTZ_KINDS:
                        col["tz"] = F.TZS[(k + n) % len(F.TZS)]
                    cases.append({"id": "L/%s/%s/n%d/v%d/%s/hn%s" % (kind, pat, n, dpv, "mp" if ps else "sp", hn),
                                  "frame": {"seed": 1000 + k, "nrows": n, "cols": [col]},
                                  "opts": {"has_nulls": hn}, "page_size": ps, "dpv": dpv})
    # big-row single-column cases (level/bit-pack framing around 8192)
    bigkinds = ["int32", "float64", "str", "Int64", "cat_str", "bool", "dt_ns", "boolean"]
    for kind in (bigkinds if tier == "quick" else F.ALL_KINDS):
        for n in (F.BIG_ROWS if tier != "quick" else [8192, 8193]):
            for dpv in (1, 2):
                pat = "p50" if F.nullable_kind(kind) else "none"
                cases.append({"id": "B/%s/n%d/v%d" % (kind, n, dpv),
                              "frame": {"seed": 77 + n, "nrows": n, "cols": [{"name": "c", "kind": kind, "nulls": pat, "vals": "small" if kind in ("str", "ostr", "bytes", "json") else "edge"}]},
                              "opts": {"has_nulls": True}, "page_size": 4096 if dpv == 2 else None, "dpv": dpv})
    # random multi-column frames x random option tuples
    nrand = 700 if tier == "quick" else 12000
    rng = np.random.default_rng([seed, 101])
    for i in range(nrand):
        cases.append(random_case(rng, "R/%d/%d" % (seed, i)))
    return cases


INDEX_KINDS = [None, None, None, {"kind": "range", "start": 5, "step": 2}, {"kind": "range", "start": 0, "step": 1, "name": "rix"},
               {"kind": "int"}, {"kind": "int", "name": "myidx"}, {"kind": "str", "name": "sidx"}, {"kind": "dt", "name": "when"},
               {"kind": "float", "name": "fidx"}, {"kind": "dtz", "name": "whenz"},
               {"kind": "range", "start": 0, "step": -1}, {"kind": "range", "start": 10, "step": -3, "name": "down"}, {"kind": "td", "name": "tdi"},
               {"kind": "cat", "name": "ci"}, {"kind": "cat_null", "name": "cin"}]


def random_case(rng, cid, kinds=None, max_cols=6, allow_multi=True):
    kinds = kinds or F.ALL_KINDS
    ncols = int(rng.integers(1, max_cols + 1))
    rows_pool = F.BOUNDARY_ROWS + [int(rng.integers(0, 400)), int(rng.integers(0, 3000))]
    n = int(rows_pool[int(rng.integers(0, len(rows_pool)))])
    cols = [{"name": "rid", "kind": "rid"}]
    for j in range(ncols):
        kind = kinds[int(rng.integers(0, len(kinds)))]
        col = {"name": "c%d" % j, "kind": kind,
               "nulls": F.NULL_PATTERNS[int(rng.integers(0, len(F.NULL_PATTERNS)))] if F.nullable_kind(kind) else "none",
               "vals": ["edge", "edge", "small"][int(rng.integers(0, 3))]}
        if kind in F.DTZ_KINDS:
            col["tz"] = F.TZS[int(rng.integers(0, len(F.TZS)))]
        if kind in F.CAT_KINDS:
            col["ncat"] = int([1, 2, 5, 40, 200, 0][int(rng.integers(0, 6))]) if kind != "cat_many" else int([129, 300, 70000][int(rng.integers(0, 3))]) if rng.random() < 0.3 else 300
            col["unused"] = int(rng.integers(0, 3))
        cols.append(col)
    if len(cols) > 1 and int(cid.rsplit("/", 1)[-1]) % 9 == 4:
        # a name of the form the reader gives its internal views of category labels
        cols[1]["name"] = "c0-catdef"
    names = [c["name"] for c in cols]
    ix = INDEX_KINDS[int(rng.integers(0, len(INDEX_KINDS)))]
    opts = {"compression": O.compression(rng, names), "row_group_offsets": O.row_group_offsets(rng, n),
            "has_nulls": O.has_nulls(rng, names), "stats": O.stats(rng, names),
            "times": "int96" if rng.random() < 0.15 else "int64",
            "file_scheme": ["simple", "simple", "hive", "drill"][int(rng.integers(0, 4))],
            "write_index": [None, None, True, False][int(rng.integers(0, 4))]}
    oe = int(rng.integers(0, 4))
    if oe == 1:
        m = {"ostr": "utf8", "bytes": "bytes", "json": "json"}
        opts["object_encoding"] = {c["name"]: m[c["kind"]] for c in cols if c["kind"] in m}
        for nm in names:
            opts["object_encoding"].setdefault(nm, "infer")
    elif oe == 2:
        obj = {c["kind"] for c in cols if c["kind"] in ("ostr", "bytes", "json")}
        if len(obj) == 1:
            opts["object_encoding"] = {"ostr": "utf8", "bytes": "bytes", "json": "json"}[obj.pop()]
    return {"id": cid, "frame": {"seed": int(rng.integers(0, 2 ** 31)), "nrows": n, "cols": cols, "index": ix},
            "opts": opts, "page_size": O.PAGE_SIZES[int(rng.integers(0, len(O.PAGE_SIZES)))],
            "dpv": int(rng.integers(1, 3))}


# ------------------------------------------------------------------------------------- worker side
_state = {}


def setup_worker():
    from vf.props.common import Reach
    from vf.mon import contracts
    r = Reach({"core.py": {"read_data_page", "read_data_page_v2", "read_col", "read_def"},
               "writer.py": {"write_column", "make_definitions", "convert", "find_type", "encode_dict"}})
    r.start()
    _state["reach"] = r
    _state["alias"] = contracts.attach_empty_alias_contract()


def codec_class(c):
    if c is None:
        return "none"
    if isinstance(c, str):
        return c
    return "dict"


def features(case, nrows_read):
    fr, o = case["frame"], case["opts"]
    kinds = tuple(sorted({c["kind"] for c in fr["cols"] if c["kind"] != "rid"}))
    pats = tuple(sorted({c.get("nulls", "none") for c in fr["cols"] if c["kind"] != "rid"}))
    hn = o.get("has_nulls", True)
    return [kinds, pats, _rowclass(fr["nrows"]), case.get("dpv"), bool(case.get("page_size")),
            hn if not isinstance(hn, list) else "list", codec_class(o.get("compression")), o.get("file_scheme", "simple"),
            (fr.get("index") or {}).get("kind"), o.get("times", "int64"),
            o.get("stats") if not isinstance(o.get("stats"), list) else "list",
            o.get("row_group_offsets") is not None, o.get("write_index")]


def run_case(case):
    import fastparquet
    from vf.props import common as C
    from vf.mon import tables as T
    df = F.build_frame(case["frame"])
    opts = case["opts"]
    path = C.fresh_path(".parq")
    counters = {}
    res = {"features": [], "nontrivial": False, "failures": [], "counters": counters}
    reach = _state.get("reach")
    before = reach.snapshot() if reach else ({}, {})
    alias = _state.get("alias")
    a0 = alias.stats() if alias else None
    try:
        with C.writer_globals(case.get("page_size"), case.get("dpv")):
            try:
                fastparquet.write(path, df, **C.write_kwargs(opts))
            except Exception as e:
                res["outcome"] = "rejected"
                res["reject"] = C.exc_shape(e)
                counters["write_rejected"] = 1
                counters["reject:" + type(e).__name__] = 1
                return res
        counters["write_ok"] = 1
        try:
            pf = fastparquet.ParquetFile(path)
            got = pf.to_pandas()
        except Exception as e:
            sh = C.exc_shape(e)
            sh["kind"] = "read_raised"
            res["failures"].append(sh)
            res["outcome"] = "ok"
            res["nontrivial"] = True
            res["features"] = features(case, 0)
            return res
        exp = C.expected_after_roundtrip(df, opts)
        ctx = {"times": opts.get("times", "int64")}
        fails = T.same_table(exp, got, ctx)
        res["failures"] += fails
        res["outcome"] = "ok"
        res["nontrivial"] = len(df) > 0
        res["features"] = features(case, len(got))
        counters["cells_compared"] = int(len(df) * len(df.columns))
        counters["roundtrips_compared"] = 1
        nrg = len(pf.row_groups)
        counters["row_groups_read"] = nrg
        if case.get("dpv") == 2 and case.get("page_size") and len(df) > 16:
            counters["v2_multipage_read"] = 1
            if any(c.get("nulls", "none") not in ("none",) for c in case["frame"]["cols"]):
                counters["v2_multipage_nulls_read"] = 1
        if any(c["kind"] in F.CAT_KINDS for c in case["frame"]["cols"]) and opts.get("compression"):
            counters["cat_codec_read"] = 1
        if (case["frame"].get("index") or {}).get("kind") not in (None, "range0", "range") and len(df.columns) >= 3:
            counters["index_multiblock_read"] = 1
        if (case["frame"].get("index") or {}).get("kind") == "cat_null" and len(df) > 2 and opts.get("write_index") is not False:
            counters["categorical_index_with_missing_entries_read"] = 1
        if any(str(c["name"]).endswith("-catdef") for c in case["frame"]["cols"]) and nrg > 1:
            counters["columns_named_like_category_definitions_read"] = 1
        if isinstance(opts.get("compression"), dict) and any(isinstance(v, dict) and "type" not in v for v in opts["compression"].values()):
            counters["codec_spec_without_type_read"] = 1
        if alias:
            a1 = alias.stats()
            counters["empty_alias_checked"] = a1["checked"] - a0["checked"]
            for v in alias.drain():
                res["failures"].append(v)
        res["sample"] = {"frame": case["frame"], "opts": opts, "dpv": case.get("dpv"), "page_size": case.get("page_size"),
                         "rows": len(df), "row_groups": nrg}
        return res
    finally:
        C.cleanup(path)
        if reach:
            l1, c1 = reach.snapshot()
            res["sets"] = {"lines:" + k: sorted(reach.lines[k]) for k in l1 if l1[k] != before[0].get(k, 0)}
            for k, v in c1.items():
                d = v - before[1].get(k, 0)
                if d:
                    counters["calls:" + k] = d


def required(tier):
    return {"roundtrips_compared": 500, "v2_multipage_nulls_read": 5, "cat_codec_read": 5,
            "index_multiblock_read": 5, "empty_alias_checked": 100, "categorical_index_with_missing_entries_read": 3,
            "columns_named_like_category_definitions_read": 3, "codec_spec_without_type_read": 3}
