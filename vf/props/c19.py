"""C19 - an append interrupted before its metadata update leaves the old dataset intact (DESIGN.md 5/C19)."""
import json
import os
import shutil
import subprocess
import sys

import numpy as np

ID = "C19"
LEVEL = "fault_enumeration"
FLAVOUR = "plain"
TECHNIQUE = "fault enumeration at runtime: the k-th filesystem call (open-for-write, write, close, mkdirs) of the append is failed (raise) or the process killed, for EVERY k of the fault-free call sequence; content oracle after each fault + audit-hook cross-check of the open_with/mkdirs seams"
RULE = ("scenarios = hive datasets with 0-2 partition columns, 1-4 new part files, new and existing partitions; for each scenario every "
        "fault index k in 1..K (K measured on the fault-free run) is executed in raise mode (and kill mode: os._exit in a child process); "
        "one evaluation = one faulted append followed by a fresh open; non-trivial = a fault that actually fired; distinct = distinct "
        "(scenario shape, call kind at k, before/after metadata start, mode) tuples; exhaustive over k within each scenario")
LEVEL_TEXT = ("fault enumeration: for each generated scenario all fault points k=1..K of the append's filesystem call sequence are exercised "
              "(raise mode; kill mode on a subset in quick, on all in thorough) and the dataset is re-opened from disk after each; holds on "
              "the scenarios explored, exhaustive in k for each of them")
ASSUMPTIONS = ["all I/O of the append goes through the caller-supplied open_with/mkdirs (cross-checked against the audit hook: any write-open "
               "not seen by the seam is itself reported)", "a failing close() is injected before the real close, i.e. the bytes may be on disk",
               "crash = os._exit at the call boundary; torn writes inside one write() call are not modelled"]
EXHAUSTIVE = True
CASE_TIMEOUT = 600


def gen_cases(tier, seed):
    rng = np.random.default_rng([seed, 1919])
    cases = []
    n = 24 if tier == "quick" else 200
    for i in range(n):
        nparts = i % 3
        cases.append({"id": "S/%d/%d" % (seed, i), "nparts": nparts, "seed": int(rng.integers(0, 2 ** 31)),
                      "init_rows": int(rng.integers(4, 30)), "init_rgo": [None, 5][int(rng.integers(0, 2))],
                      "new_rows": int(rng.integers(2, 25)), "new_rgo": [None, 3, 7][int(rng.integers(0, 3))],
                      "new_partitions": bool(rng.integers(0, 2)),
                      "kill": (tier == "thorough") or (i % 6 == 0)})
        if i % 4 == 3:
            # an existing dataset with many part files (part numbers of two digits and more; with partitions several per directory)
            cases[-1]["init_rows"] = int(rng.integers(24, 60))
            cases[-1]["init_rgo"] = int(rng.integers(1, 3))
        elif i % 8 == 2:
            # part numbers with a hole below the maximum: an early row group was removed (files keep their names)
            cases[-1]["init_rows"] = int(rng.integers(12, 30))
            cases[-1]["init_rgo"] = int(rng.integers(2, 5))
            cases[-1]["init_remove"] = [0] if i % 16 == 2 else [0, 2]
        elif i % 8 == 6:
            cases[-1]["init_appends"] = int(rng.integers(1, 4))     # the existing dataset is itself the result of earlier appends
        if i % 12 == 9 or i % 12 == 0:
            # a dataset whose summary lists no row group any more (all were removed): nothing but the summary says what belongs to it
            cases[-1]["nparts"] = 0
            cases[-1]["init_remove_all"] = True
            cases[-1].pop("init_remove", None)
        if i % 3 == 1:
            # the append goes through a handle the caller keeps (ParquetFile.write_row_groups); after a failed append the same handle
            # appends another frame without faults: a fresh open must then see the old rows and that frame, nothing of the failed one
            cases[-1]["via_handle"] = True
    return cases


def _frame(rng, rid0, n, nparts, new_partitions=False):
    import pandas as pd
    d = {"rid": np.arange(rid0, rid0 + n, dtype="int64"), "v": rng.standard_normal(n),
         "s": np.array(["s%d" % x for x in rng.integers(0, 9, n)], dtype=object)}
    pool = ["a", "b", "c"] if not new_partitions else ["b", "c", "d", "e"]
    if nparts >= 1:
        d["p0"] = np.array(pool, dtype=object)[rng.integers(0, len(pool), n)]
    if nparts >= 2:
        d["p1"] = rng.integers(0, 2 + int(new_partitions), n).astype("int64")
    return pd.DataFrame(d)


def _rids(path):
    import fastparquet
    pf = fastparquet.ParquetFile(path)
    if not pf.row_groups:
        import pandas as pd
        return pd.DataFrame({"rid": np.array([], dtype="int64"), "v": np.array([], dtype="float64"), "s": np.array([], dtype=object)})
    df = pf.to_pandas(index=False)
    return df


def _append(path, new, case, seam, box=None):
    import fastparquet
    if case.get("via_handle"):
        pf = fastparquet.ParquetFile(path)
        if box is not None:
            box.append(pf)
        pf.write_row_groups(new, row_group_offsets=case["new_rgo"] or None, open_with=seam.open_with, mkdirs=seam.mkdirs)
        return
    kw = {"file_scheme": "hive", "append": True, "open_with": seam.open_with, "mkdirs": seam.mkdirs}
    if case["nparts"]:
        kw["partition_on"] = ["p0", "p1"][:case["nparts"]]
    if case["new_rgo"]:
        kw["row_group_offsets"] = case["new_rgo"]
    fastparquet.write(path, new, **kw)


def kill_child(argv):
    """Child process for kill mode: performs the append with a seam that os._exit()s at call k."""
    path, case_json, k = argv
    case = json.loads(case_json)
    from vf.mon import fsmon
    rng = np.random.default_rng([case["seed"], 2])
    new = _frame(rng, 10 ** 6, case["new_rows"], case["nparts"], case["new_partitions"])
    seam = fsmon.FaultSeam(fail_at=int(k), mode="kill")
    try:
        _append(path, new, case, seam)
    except BaseException:
        os._exit(3)
    os._exit(0)


def run_case(case):
    import pandas as pd
    import fastparquet
    from vf.props import common as C
    from vf.mon import fsmon
    counters = {}
    res = {"features": [], "nontrivial": False, "failures": [], "counters": counters}
    tmpl = C.fresh_path("-tmpl")
    work = C.fresh_path("-work")
    feats = set()
    try:
        rng0 = np.random.default_rng([case["seed"], 1])
        df0 = _frame(rng0, 0, case["init_rows"], case["nparts"])
        kw = {"file_scheme": "hive"}
        if case["nparts"]:
            kw["partition_on"] = ["p0", "p1"][:case["nparts"]]
        if case["init_rgo"]:
            kw["row_group_offsets"] = case["init_rgo"]
        fastparquet.write(tmpl, df0, **kw)
        for j in range(case.get("init_appends", 0)):
            fastparquet.write(tmpl, _frame(rng0, 1000 * (j + 1), int(rng0.integers(3, 12)), case["nparts"]), append=True, **kw)
        if case.get("init_remove"):
            pf0 = fastparquet.ParquetFile(tmpl)
            doomed = [pf0.row_groups[j] for j in case["init_remove"] if j < len(pf0.row_groups) - 1]
            if doomed:
                pf0.remove_row_groups(doomed)
                counters["scenarios_with_removed_row_groups"] = 1
        if case.get("init_remove_all"):
            pf0 = fastparquet.ParquetFile(tmpl)
            pf0.remove_row_groups(pf0.row_groups)
            counters["scenarios_with_an_emptied_dataset"] = 1
        old = _rids(tmpl)
        rng = np.random.default_rng([case["seed"], 2])
        new = _frame(rng, 10 ** 6, case["new_rows"], case["nparts"], case["new_partitions"])
        old_files = {rel for rel in fsmon.snapshot(tmpl) if not fsmon.is_meta(rel)}
        if len(old_files) >= 11:
            counters["scenarios_with_ge_11_existing_parts"] = 1
        # fault-free run: measure K and where the metadata rewrite starts
        shutil.copytree(tmpl, work)
        seam = fsmon.FaultSeam()
        with fsmon.Audit(work) as aud:
            _append(work, new, case, seam)
        K = seam.n
        k_meta = next((i for i, kind, p in seam.calls if kind == "open_w" and os.path.basename(p) in ("_metadata", "_common_metadata")), K + 1)
        exp_new_rids = sorted(old["rid"].tolist() + new["rid"].tolist())
        try:
            full = _rids(work)
            if sorted(full["rid"].tolist()) != exp_new_rids:
                res["failures"].append({"kind": "fault_free_append_wrong", "expected": len(exp_new_rids), "got": len(full)})
        except Exception as e:
            res["failures"].append({"kind": "dataset_unreadable_after_fault_free_append", **C.exc_shape(e)})
        seam_w = {os.path.abspath(p) for i, kind, p in seam.calls if kind == "open_w"}
        for ev in aud.events:
            if ev[0] == "open" and fsmon.is_write_mode(ev[2]) and os.path.abspath(ev[1]) not in seam_w:
                res["failures"].append({"kind": "write_open_bypasses_open_with", "file": os.path.relpath(ev[1], work), "mode": ev[2]})
        shutil.rmtree(work)
        counters["scenarios"] = 1
        counters["K_total"] = K
        counters["new_part_files"] = sum(1 for i, kind, p in seam.calls if kind == "open_w" and os.path.basename(p) not in ("_metadata", "_common_metadata"))
        shape = (case["nparts"], case["new_partitions"], bool(case["new_rgo"]))
        kinds_at = {i: kind for i, kind, p in seam.calls}

        def judge(k, mode, reported_failure, events, box=None):
            ctx = {"k": k, "K": K, "k_meta": k_meta, "call_kind": kinds_at.get(k), "mode": mode, "nparts": case["nparts"],
                   "new_partitions": case["new_partitions"], "reported_failure": reported_failure}
            # clause 3: never open an existing data file for writing (any k)
            for ev in events:
                if ev[0] == "open" and fsmon.is_write_mode(ev[2]):
                    rel = os.path.relpath(ev[1], work).replace(os.sep, "/")
                    if rel in old_files:
                        res["failures"].append({"kind": "existing_data_file_opened_for_writing", "file": rel, "open_mode": ev[2], **ctx})
                if ev[0] in ("rename", "remove", "truncate"):
                    rel = os.path.relpath(ev[1], work).replace(os.sep, "/")
                    if rel in old_files:
                        res["failures"].append({"kind": "existing_data_file_" + ev[0], "file": rel, **ctx})
            # data files that existed must be byte-identical
            snap = fsmon.snapshot(work)
            tsnap = judge.tsnap
            for rel in old_files:
                if rel not in snap or snap[rel][:2] != tsnap[rel][:2]:
                    res["failures"].append({"kind": "existing_data_file_changed", "file": rel, **ctx})
            if k < k_meta:
                try:
                    got = _rids(work)
                except Exception as e:
                    res["failures"].append({"kind": "dataset_unreadable_after_fault", **ctx, **C.exc_shape(e)})
                    return
                want = old if reported_failure else None
                if reported_failure:
                    if sorted(got["rid"].tolist()) != sorted(old["rid"].tolist()):
                        res["failures"].append({"kind": "content_changed_after_failed_append", "expected": len(old), "got": len(got), **ctx})
                    else:
                        g = got.sort_values("rid").reset_index(drop=True)
                        o = old.sort_values("rid").reset_index(drop=True)
                        for c in ("v", "s"):
                            if g[c].astype(object).tolist() != o[c].astype(object).tolist():
                                res["failures"].append({"kind": "cells_changed_after_failed_append", "column": c, **ctx})
                else:
                    if sorted(got["rid"].tolist()) != exp_new_rids:
                        res["failures"].append({"kind": "append_returned_normally_but_content_is_not_new", "expected": len(exp_new_rids), "got": len(got), **ctx})
                counters["content_checks"] = counters.get("content_checks", 0) + 1
                if box and reported_failure:
                    # the kept handle appends again, fault-free
                    new2 = _frame(np.random.default_rng([case["seed"], 3, k]), 2 * 10 ** 6, 5, case["nparts"], case["new_partitions"])
                    try:
                        box[0].write_row_groups(new2, row_group_offsets=None)
                    except Exception as e:
                        counters["kept_handle_followup_raised"] = counters.get("kept_handle_followup_raised", 0) + 1
                    else:
                        counters["kept_handle_followups"] = counters.get("kept_handle_followups", 0) + 1
                        try:
                            got2 = sorted(_rids(work)["rid"].tolist())
                        except Exception as e:
                            res["failures"].append({"kind": "dataset_unreadable_after_append_following_a_failed_one", **ctx, **C.exc_shape(e)})
                        else:
                            want2 = sorted(old["rid"].tolist() + new2["rid"].tolist())
                            if got2 != want2:
                                res["failures"].append({"kind": "append_after_failed_append_returned_normally_but_content_is_not_new", "expected": len(want2), "got": len(got2),
                                                        "rows_of_the_failed_append_present": len(set(got2) & set(new["rid"].tolist())), **ctx})
            feats.add(str((shape, kinds_at.get(k), k < k_meta, mode)))

        judge.tsnap = fsmon.snapshot(tmpl)
        for k in range(1, K + 1):
            shutil.copytree(tmpl, work)
            seam = fsmon.FaultSeam(fail_at=k, mode="raise")
            reported = False
            box = []
            with fsmon.Audit(work) as aud:
                try:
                    _append(work, new, case, seam, box)
                except Exception:
                    reported = True
                except BaseException as e:
                    reported = True
                    res["failures"].append({"kind": "non_exception_after_fault", "type": type(e).__name__, "k": k})
            if seam.fired is None:
                res["failures"].append({"kind": "fault_index_not_reached", "k": k, "K": K, "n": seam.n})
            else:
                counters["faults_fired_raise"] = counters.get("faults_fired_raise", 0) + 1
                counters["fired:" + seam.fired[1]] = counters.get("fired:" + seam.fired[1], 0) + 1
            judge(k, "raise", reported, aud.events, box)
            shutil.rmtree(work)
        if case.get("kill"):
            env = dict(os.environ)
            for k in range(1, K + 1):
                shutil.copytree(tmpl, work)
                p = subprocess.run([sys.executable, "-m", "vf.props.c19", "--kill", work, json.dumps(case), str(k)],
                                   env=env, timeout=120, stdout=subprocess.PIPE, stderr=subprocess.STDOUT)
                if p.returncode != 97:
                    res["failures"].append({"kind": "kill_child_unexpected_exit", "rc": p.returncode, "k": k, "out": p.stdout.decode()[-300:]})
                else:
                    counters["faults_fired_kill"] = counters.get("faults_fired_kill", 0) + 1
                judge(k, "kill", True, [])
                shutil.rmtree(work)
        res["outcome"] = "ok"
        res["nontrivial"] = K > 0
        res["features"] = sorted(feats)
        res["sample"] = {"scenario": {k: case[k] for k in ("nparts", "init_rows", "new_rows", "new_rgo", "new_partitions")}, "K": K, "k_meta": k_meta,
                         "calls": [(i, kind, os.path.relpath(p, work)) for i, kind, p in seam.calls][:12]}
        return res
    finally:
        C.cleanup(tmpl)
        C.cleanup(work)


def coverage_extra(agg):
    feats = set()
    ev = 0
    for r in agg.results.values():
        for f in r.get("features") or []:
            feats.add(str(f))
        c = r.get("counters") or {}
        ev += c.get("faults_fired_raise", 0) + c.get("faults_fired_kill", 0)
    return {"distinct_nontrivial": len(feats), "evaluations": ev, "scenarios": len(agg.results),
            "exhaustive": True, "exhaustive_note": "every fault index k=1..K of every generated scenario was executed (raise mode)"}


def required(tier):
    return {"faults_fired_raise": 300, "content_checks": 200, "faults_fired_kill": 30, "fired:open_w": 20, "fired:write": 100, "fired:close": 20,
            "fired:mkdirs": 1, "scenarios_with_ge_11_existing_parts": 3, "scenarios_with_removed_row_groups": 2, "kept_handle_followups": 40, "scenarios_with_an_emptied_dataset": 2}


if __name__ == "__main__":
    if len(sys.argv) > 1 and sys.argv[1] == "--kill":
        kill_child(sys.argv[2:])
