"""C08 - directory-partitioned write/read preserves every row and every partition value (DESIGN.md 5/C08)."""
import os

import numpy as np

ID = "C08"
LEVEL = "exploration"
FLAVOUR = "plain"
TECHNIQUE = "runtime monitor: per-file row placement check (unique row ids vs directory names) + dataset multiset equality + value-kind check of reconstructed partition columns"
RULE = ("seeded frames with 1-3 partition columns over int/float/bool/timestamp/text (incl. numeric-looking text)/categorical keys, "
        "hive and drill schemes, any row_group_offsets, value columns of C01 dtypes; every part file is read on its own and "
        "its row ids must belong to the directory it sits in; the dataset read must return every keyed row exactly once; "
        "non-trivial = >=1 keyed row placed and compared; distinct = distinct (scheme, partition kinds, null keys, rg split) tuples")
ASSUMPTIONS = ["rows with a null partition key are documented as dropped and are excluded from the expectation",
               "reading one part file's rid column with fastparquet itself is trusted (tied to the input by C01)",
               "for the drill layout only placement, no loss/duplication and constant dirN columns are demanded"]
CASE_TIMEOUT = 120

from vf.gen import datasets as D
from vf.gen import frames as F


def gen_cases(tier, seed):
    rng = np.random.default_rng([seed, 808])
    cases = []
    n = 320 if tier == "quick" else 6000
    for i in range(n):
        scheme = ["hive", "hive", "drill"][i % 3]
        c = D.random_dataset(rng, "P/%d/%d" % (seed, i), scheme=scheme, n_part=int(rng.integers(1, 4)), pkinds=D.ALL_PKINDS,
                             max_rows=120, partition_nulls=True, min_rows=1,
                             value_kinds=D.VALUE_KINDS_SAFE if i % 2 else F.ALL_KINDS)
        if i % 7 == 3 and scheme == "hive":
            # partition column NAMES that are not plain identifiers (still legal path text: no '/' or '=')
            names = ["my key", "region-id", "a.b", "gr\u00f6\u00dfe", "\u65e5\u4ed8", "x y-z.w"]
            ren = {}
            for j_, pc_ in enumerate([c_ for c_ in c["frame"]["cols"] if c_["name"] in (c["opts"].get("partition_on") or [])]):
                ren[pc_["name"]] = names[(i // 7 + j_) % len(names)]
                pc_["name"] = ren[pc_["name"]]
            c["opts"]["partition_on"] = [ren.get(n_, n_) for n_ in c["opts"]["partition_on"]]
        if i % 6 == 5:
            # a frame whose row index has repeated labels (stacked frames) and is not written
            c["frame"]["index"] = {"kind": ["dup", "dup_str"][(i // 6) % 2]}
            c["opts"]["write_index"] = False
        cases.append(c)
    # deterministic: each partition kind alone, both schemes
    k = 0
    for pk in D.ALL_PKINDS + ["pdt_far"]:
        for scheme in ("hive", "drill"):
            for card in (1, 3):
                k += 1
                cases.append({"id": "K/%s/%s/%d" % (pk, scheme, card),
                              "frame": {"seed": 4000 + k, "nrows": 40,
                                        "cols": [{"name": "rid", "kind": "rid"}, {"name": "v0", "kind": "float64", "nulls": "p50"},
                                                 {"name": "p0", "kind": pk, "card": card, "off": k}], "index": None},
                              "opts": {"file_scheme": scheme, "partition_on": ["p0"], "row_group_offsets": [0, 13, 27]},
                              "page_size": None, "dpv": 1})
                if card == 3:
                    cases.append({"id": "KD/%s/%s" % (pk, scheme),
                                  "frame": {"seed": 4500 + k, "nrows": 40,
                                            "cols": [{"name": "rid", "kind": "rid"}, {"name": "v0", "kind": "int64", "nulls": "none"},
                                                     {"name": "p0", "kind": pk, "card": card, "off": k}], "index": {"kind": "dup"}},
                                  "opts": {"file_scheme": scheme, "partition_on": ["p0"], "row_group_offsets": [0, 21], "write_index": False},
                                  "page_size": None, "dpv": 1})
    # datasets whose part numbers reach two digits (one write split into many chunks, or many successive appends), then appended to:
    # every stored row must still sit in its directory exactly once
    k = 0
    for scheme in ("hive", "drill"):
        for pk in ("pint", "pstr", "pstr_num"):
            for nchunk, nappend in ((12, 1), (3, 11), (10, 2), (25, 3)):
                k += 1
                if tier == "quick" and k % 2:
                    continue
                fr = {"seed": 4800 + k, "nrows": 2 * nchunk, "cols": [{"name": "rid", "kind": "rid"}, {"name": "v0", "kind": "int64", "nulls": "none"},
                                                                      {"name": "p0", "kind": pk, "card": 2, "off": k}], "index": None}
                apps = []
                rid0 = fr["nrows"]
                for j in range(nappend):
                    a = dict(fr, seed=4900 + 17 * k + j, nrows=4, rid0=rid0)
                    rid0 += 4
                    apps.append(a)
                cases.append({"id": "MA/%s/%s/%d/%d" % (pk, scheme, nchunk, nappend), "frame": fr, "appends": apps,
                              "opts": {"file_scheme": scheme, "partition_on": ["p0"], "row_group_offsets": 2}, "page_size": None, "dpv": 1})
    # the same through a handle that renumbers the part files as it appends (write_row_groups(sort_pnames=True)): every row group
    # is spread over both key directories, so a renumbering moves files onto names that are still in use
    k = 0
    for pk in ("pint", "pstr"):
        for nchunk, nappend in ((2, 1), (3, 2), (5, 1)):
            k += 1
            fr = {"seed": 5200 + k, "nrows": 4 * nchunk, "cols": [{"name": "rid", "kind": "rid"}, {"name": "v0", "kind": "int64", "nulls": "none"},
                                                                  {"name": "p0", "kind": pk, "card": 2, "off": k}], "index": None}
            apps = []
            rid0 = fr["nrows"]
            for j in range(nappend):
                apps.append(dict(fr, seed=5300 + 17 * k + j, nrows=4, rid0=rid0))
                rid0 += 4
            cases.append({"id": "MS/%s/%d/%d" % (pk, nchunk, nappend), "frame": fr, "appends": apps, "append_via": "handle_sorted",
                          "opts": {"file_scheme": "hive", "partition_on": ["p0"], "row_group_offsets": 4}, "page_size": None, "dpv": 1})
    return cases


def key_text(kind, v):
    import pandas as pd
    if kind == "pint":
        return str(int(v))
    if kind == "pfloat":
        return repr(float(v))
    if kind == "pbool":
        return "True" if bool(v) else "False"
    if kind in ("pdt", "pdate", "pdt_far"):
        return pd.Timestamp(v).isoformat()
    return str(v)


def key_text_drill(kind, v):
    import pandas as pd
    if kind in ("pdt", "pdate", "pdt_far"):
        return str(pd.Timestamp(v))
    return key_text(kind, v)


def kind_ok(kind, exp, got):
    """Is `got` the same value AND value kind as `exp` (hive)?"""
    import pandas as pd
    if kind == "pint":
        return isinstance(got, (int, np.integer)) and not isinstance(got, (bool, np.bool_)) and int(got) == int(exp)
    if kind == "pfloat":
        return isinstance(got, (float, np.floating)) and float(got) == float(exp)
    if kind == "pbool":
        return isinstance(got, (bool, np.bool_)) and bool(got) == bool(exp)
    if kind in ("pdt", "pdate", "pdt_far"):
        try:
            return isinstance(got, (pd.Timestamp, np.datetime64)) and pd.Timestamp(got) == pd.Timestamp(exp)
        except Exception:
            return False
    if kind in ("pstr", "pstr_num", "pcat"):
        return isinstance(got, str) and got == str(exp)
    if kind == "pcat_int":
        return (isinstance(got, (int, np.integer)) and int(got) == int(exp)) or (isinstance(got, str) and got == str(exp))
    return False


def run_case(case):
    import pandas as pd
    import fastparquet
    from vf.props import common as C
    from vf.mon import tables as T
    df = D.build_dataset_frame(case)
    opts = case["opts"]
    scheme = opts["file_scheme"]
    pcols = opts["partition_on"]
    pkind = {c["name"]: c["kind"] for c in case["frame"]["cols"]}
    path = C.fresh_path("")
    counters = {}
    res = {"features": [], "nontrivial": False, "failures": [], "counters": counters}
    try:
        with C.writer_globals(case.get("page_size"), case.get("dpv")):
            try:
                fastparquet.write(path, df, **C.write_kwargs(opts))
            except Exception as e:
                res["outcome"] = "rejected"
                res["reject"] = C.exc_shape(e)
                counters["write_rejected"] = 1
                counters["reject:" + type(e).__name__] = 1
                return res
            for a in case.get("appends") or []:
                dfa = D.build_dataset_frame({"frame": a})
                try:
                    if case.get("append_via") == "handle_sorted":
                        fastparquet.ParquetFile(path).write_row_groups(dfa, sort_pnames=True)
                        counters["appends_through_a_handle_that_renumbers_parts"] = counters.get("appends_through_a_handle_that_renumbers_parts", 0) + 1
                    else:
                        fastparquet.write(path, dfa, append=True, **C.write_kwargs(opts))
                except Exception as e:
                    if scheme == "drill" and isinstance(e, ValueError) and "Requested file scheme is drill" in str(e):
                        # a refusal (C07's open finding): nothing was stored, so nothing can be misplaced
                        counters["drill_append_refused"] = counters.get("drill_append_refused", 0) + 1
                        break
                    res["failures"].append({"kind": "append_to_partitioned_dataset_raised", "parts_before": sum(len(f_) for _, _, f_ in os.walk(path)), **C.exc_shape(e)})
                    break
                df = pd.concat([df, dfa], ignore_index=True)
                counters["appends_to_datasets_with_many_parts"] = counters.get("appends_to_datasets_with_many_parts", 0) + 1
        keyed = df.dropna(subset=pcols) if len(df) else df
        # expected directory per rid
        for p in pcols:
            if pkind[p] == "pint" and df[p].dtype.kind == "f":
                pkind[p] = "pfloat"     # an int key column holding a NaN is a float column
        texts = {}
        colvals = {p: keyed[p].astype(object).tolist() for p in pcols}
        for j, rid in enumerate(keyed["rid"].tolist()):
            if scheme == "hive":
                parts = ["%s=%s" % (p, key_text(pkind[p], colvals[p][j])) for p in pcols]
            else:
                parts = [key_text_drill(pkind[p], colvals[p][j]) for p in pcols]
            texts[int(rid)] = "/".join(parts)
        # (i) each data file on its own
        seen = {}
        nfiles = 0
        for root, dirs, files in os.walk(path):
            for fn in files:
                if fn in ("_metadata", "_common_metadata"):
                    continue
                full = os.path.join(root, fn)
                rel = os.path.relpath(root, path).replace(os.sep, "/")
                nfiles += 1
                try:
                    part = fastparquet.ParquetFile(full).to_pandas(columns=["rid"], index=False)
                except Exception as e:
                    res["failures"].append({"kind": "part_file_unreadable", "file": rel + "/" + fn, **C.exc_shape(e)})
                    continue
                for rid in part["rid"].tolist():
                    rid = int(rid)
                    if rid in seen:
                        res["failures"].append({"kind": "row_duplicated_across_files", "rid": rid, "files": [seen[rid], rel]})
                    seen[rid] = rel
                    if rid not in texts:
                        res["failures"].append({"kind": "row_with_null_key_stored", "rid": rid, "dir": rel})
                    elif texts[rid] != rel:
                        res["failures"].append({"kind": "row_in_wrong_directory", "rid": rid, "dir": rel, "expected_dir": texts[rid],
                                                "pkinds": [pkind[p] for p in pcols]})
        missing = sorted(set(texts) - set(seen))
        if missing:
            res["failures"].append({"kind": "rows_missing_from_files", "n": len(missing), "first": missing[:5]})
        counters["part_files_checked"] = nfiles
        counters["rows_placed"] = len(seen)
        # (ii) dataset read
        try:
            pf = fastparquet.ParquetFile(path)
            got = pf.to_pandas()
        except Exception as e:
            res["failures"].append({"kind": "dataset_read_raised", "pkinds": [pkind[p] for p in pcols], "scheme": scheme,
                                    "n_keyed": len(keyed), **C.exc_shape(e)})
            res["outcome"] = "ok"
            res["nontrivial"] = len(keyed) > 0
            res["features"] = _features(case, keyed, df)
            return res
        if pf.file_scheme != scheme and len(keyed):
            res["failures"].append({"kind": "scheme_misdetected", "expected": scheme, "got": pf.file_scheme,
                                    "pkinds": [pkind[p] for p in pcols], "dirs": sorted(set(texts.values()))[:6]})
        grids = got["rid"].tolist() if "rid" in got else []
        if sorted(grids) != sorted(texts):
            dup = len(grids) - len(set(grids))
            res["failures"].append({"kind": "dataset_rows_differ", "expected": len(texts), "got": len(grids), "duplicates": dup,
                                    "missing": len(set(texts) - set(grids)), "extra": len(set(grids) - set(texts))})
        else:
            got_s = got.sort_values("rid", kind="stable").reset_index(drop=True)
            exp_s = keyed.sort_values("rid", kind="stable").reset_index(drop=True)
            vcols = [c for c in df.columns if c not in pcols]
            # value columns
            missing_cols = [c for c in vcols if c not in got_s.columns]
            if missing_cols:
                res["failures"].append({"kind": "value_columns_missing", "columns": missing_cols})
            for c in vcols:
                if c in got_s.columns:
                    fl = T.compare_series(c, exp_s[c], got_s[c], check_dtype=False, cat_strict=False)
                    for f in fl:
                        f["scheme"] = scheme
                    res["failures"] += fl
            counters["cells_compared"] = len(exp_s) * len(vcols)
            # partition columns (only when something was stored: a dataset without row groups has no paths to derive them from)
            if not len(keyed):
                pass
            elif scheme == "hive":
                for p in pcols:
                    if p not in got_s.columns:
                        res["failures"].append({"kind": "partition_column_missing", "column": p, "got_columns": [str(c) for c in got_s.columns]})
                        continue
                    gv = got_s[p].astype(object).tolist()
                    ev = exp_s[p].astype(object).tolist()
                    bad = [(e, g) for e, g in zip(ev, gv) if not kind_ok(pkind[p], e, g)]
                    counters["partition_values_compared"] = counters.get("partition_values_compared", 0) + len(ev)
                    if bad:
                        e, g = bad[0]
                        res["failures"].append({"kind": "partition_value", "column": p, "pkind": pkind[p], "n_bad": len(bad),
                                                "expected": repr(e), "expected_type": type(e).__name__,
                                                "got": repr(g), "got_type": type(g).__name__})
            else:
                for i, p in enumerate(pcols):
                    dn = "dir%d" % i
                    if dn not in got_s.columns:
                        res["failures"].append({"kind": "drill_column_missing", "column": dn, "got_columns": [str(c) for c in got_s.columns]})
                        continue
                    # constant per file and one-to-one with the key text
                    m = {}
                    gv = got_s[dn].astype(object).tolist()
                    for rid, g in zip(got_s["rid"].tolist(), gv):
                        t = texts[int(rid)].split("/")[i]
                        m.setdefault(t, set()).add(repr(g))
                    multi = {t: v for t, v in m.items() if len(v) > 1}
                    if multi:
                        res["failures"].append({"kind": "drill_value_not_constant", "column": dn, "detail": {t: sorted(v) for t, v in list(multi.items())[:3]}})
                    inv = {}
                    for t, v in m.items():
                        for x in v:
                            inv.setdefault(x, set()).add(t)
                    merged = {x: sorted(t) for x, t in inv.items() if len(t) > 1}
                    if merged:
                        res["failures"].append({"kind": "drill_keys_merged", "column": dn, "pkind": pkind[p], "detail": dict(list(merged.items())[:3])})
                    counters["drill_values_compared"] = counters.get("drill_values_compared", 0) + len(gv)
        res["outcome"] = "ok"
        res["nontrivial"] = len(keyed) > 0
        res["features"] = _features(case, keyed, df)
        res["sample"] = {"scheme": scheme, "partition_kinds": [pkind[p] for p in pcols], "rows": len(df), "keyed_rows": len(keyed),
                         "files": nfiles, "dirs": sorted(set(texts.values()))[:5]}
        for f in res["failures"]:
            f.setdefault("pkinds", [pkind[p] for p in pcols])
            f.setdefault("scheme", scheme)
        return res
    finally:
        C.cleanup(path)


def _features(case, keyed, df):
    pk = tuple(sorted(c["kind"] for c in case["frame"]["cols"] if c["name"] in case["opts"]["partition_on"]))
    return [case["opts"]["file_scheme"], pk, len(keyed) != len(df), type(case["opts"].get("row_group_offsets")).__name__,
            case.get("dpv")]


def required(tier):
    return {"rows_placed": 5000, "part_files_checked": 1000, "partition_values_compared": 3000, "drill_values_compared": 1000, "appends_to_datasets_with_many_parts": 15, "appends_through_a_handle_that_renumbers_parts": 6}
