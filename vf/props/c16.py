"""C16 - user key-value metadata is kept verbatim; in-place updates touch nothing else (DESIGN.md 5/C16)."""
import hashlib
import os

import numpy as np

ID = "C16"
LEVEL = "exploration"
FLAVOUR = "plain"
TECHNIQUE = "runtime monitor: dict model of the key-value set + field-by-field footer diff and structural validation by the independent reader + byte-prefix hash of the data area, after every in-place update"
RULE = ("seeded histories: write with an initial key-value dict (str/bytes, unicode, empty, large) then 1..6 in-place updates (add / replace / "
        "remove-on-None mixes) engineered so that the footer size changes by every delta in -40..+40 at least once per run set, on data files "
        "and on _metadata files; non-trivial = >=1 update verified; distinct = distinct (target kind, footer-size delta, operation mix) tuples")
ASSUMPTIONS = ["keys and values are compared as UTF-8 bytes (the API decodes bytes to str when it can)",
               "vf/ref decides validity of the rewritten file (magic, footer length, IDL-typed footer, page structure)"]
CASE_TIMEOUT = 120

UNI = ["k", "key with space", "clé", "键", "", "x" * 100]


def gen_cases(tier, seed):
    rng = np.random.default_rng([seed, 1616])
    cases = []
    deltas = list(range(-40, 41))
    n = 230 if tier == "quick" else 3000
    for i in range(n):
        target = ["data", "data", "_metadata"][i % 3]
        k = int(rng.integers(1, 7))
        steps = []
        for j in range(k):
            steps.append({"delta": int(deltas[(i * 7 + j * 13) % len(deltas)]), "op": ["resize", "resize", "add", "remove", "mix", "replace_same", "remove_many", "with_unchanged"][int(rng.integers(0, 8))],
                          "seed": int(rng.integers(0, 2 ** 31))})
        init = int(rng.integers(0, 6))
        cases.append({"id": "K/%d/%d" % (seed, i), "target": target, "steps": steps, "seed": int(rng.integers(0, 2 ** 31)), "init": init,
                      "big": (i % 41 == 0), "bytes_api": bool(i % 2), "nrg": int(rng.integers(1, 4))})
    return cases


def b(x):
    return x.encode("utf8") if isinstance(x, str) else bytes(x)


def run_case(case):
    import pandas as pd
    import fastparquet
    from fastparquet.writer import update_file_custom_metadata
    from vf.props import common as C
    from vf.ref import reader as R
    from vf.ref import compact as CP
    rng = np.random.default_rng([case["seed"], 16])
    counters = {}
    res = {"features": [], "nontrivial": False, "failures": [], "counters": counters}
    target = case["target"]
    path = C.fresh_path(".parq" if target == "data" else "")
    feats = set()
    try:
        n = 30
        df = pd.DataFrame({"rid": np.arange(n, dtype="int64"), "v": rng.standard_normal(n), "s": np.array(["q%d" % i for i in range(n)], dtype=object)})
        init = {}
        for i in range(case["init"]):
            key = UNI[i % len(UNI)] + str(i)
            val = "v" * int(rng.integers(0, 60)) + ["", "é", "日本"][i % 3]
            if case["bytes_api"] and i % 2:
                init[key.encode("utf8")] = val.encode("utf8")
            else:
                init[key] = val
        init["pad"] = "p" * 64            # the value that gets resized
        if case["seed"] % 3 == 0:
            init["empty-value"] = "" if case["seed"] % 2 else b""
        if case["seed"] % 5 == 0:
            init[""] = "value of the empty key"
        if case["big"]:
            init["big"] = "B" * (1 << 20)
        model = {b(k): b(v) for k, v in init.items()}
        if case["seed"] % 4 == 1:
            # DataFrame.attrs travel in the same key-value list (key PANDAS_ATTRS): they must not displace the user's keys
            df.attrs = {"source": "unit é", "n": 3}
            counters["frames_with_attrs"] = 1
        given = dict(init)
        kw = {"custom_metadata": given, "row_group_offsets": max(1, n // case["nrg"])}
        if target == "data":
            fastparquet.write(path, df, **kw)
            fpath = path
        else:
            fastparquet.write(path, df, file_scheme="hive", **kw)
            fpath = os.path.join(path, "_metadata")
        if given != init:
            # the dict is the caller's: what the write adds for itself (the frame's attrs) must not end up in it (and so in the next write)
            res["failures"].append({"kind": "write_changed_the_callers_metadata_dict", "added": [str(k)[:20] for k in given if k not in init][:4], "frame_has_attrs": bool(df.attrs)})
        counters["callers_dicts_compared"] = 1
        # ---- write-time metadata verbatim
        pf = fastparquet.ParquetFile(path)
        got = {b(k): b(v) for k, v in pf.key_value_metadata.items() if b(k) not in (b"pandas", b"PANDAS_ATTRS")}
        if got != model:
            res["failures"].append({"kind": "write_time_metadata_not_verbatim", "missing": [k.decode("utf8", "replace")[:20] for k in set(model) - set(got)][:4],
                                    "extra": [k.decode("utf8", "replace")[:20] for k in set(got) - set(model)][:4],
                                    "changed": [k.decode("utf8", "replace")[:20] for k in model if k in got and got[k] != model[k]][:4]})
        counters["write_time_sets_compared"] = 1
        info0 = R.read_file(fpath, data_dir=os.path.dirname(fpath))
        if info0.meta is None:
            res["failures"].append({"kind": "initial_file_invalid", "diags": [d[0] for d in info0.diags][:4]})
            res["outcome"] = "ok"
            return res
        frozen0 = frozen_part(info0.meta, CP)
        raw0 = open(fpath, "rb").read()
        prefix_hash = hashlib.sha256(raw0[:info0.footer_start]).hexdigest()
        table0 = pf.to_pandas()
        done = 0
        for si, st in enumerate(case["steps"]):
            r2 = np.random.default_rng([st["seed"], 3])
            upd = {}
            d = st["delta"]
            op = st["op"]
            cur_pad = len(model.get(b"pad", b""))
            if op in ("resize", "mix"):
                newlen = max(0, cur_pad + d)
                upd["pad"] = "p" * newlen
            if op in ("add", "mix"):
                upd["new%d" % si] = ("n" * int(r2.integers(0, 30)) + "ü") if r2.random() < 0.8 else ""
            if op in ("remove", "mix"):
                others = [k for k in model if k not in (b"pad",)]
                if others:
                    k0 = others[int(r2.integers(0, len(others)))]
                    upd[k0 if case["bytes_api"] else k0.decode("utf8")] = None
                else:
                    upd["never-there"] = None
            if op == "remove_many":
                # several existing keys removed by ONE update, named in the order they are stored (and once in a shuffled order)
                others = [k for k in model if k not in (b"pad",)]
                if len(others) < 2:
                    for j_ in range(3):     # not enough keys yet: this step adds some, a later one removes them
                        upd["many%d_%d" % (si, j_)] = "m" * j_
                else:
                    k_ = int(r2.integers(2, len(others) + 1))
                    pick = sorted(r2.choice(len(others), size=k_, replace=False).tolist())
                    if r2.random() < 0.3:
                        pick = [int(x) for x in r2.permutation(pick)]
                    for j_ in pick:
                        k0 = others[j_]
                        upd[k0 if case["bytes_api"] else k0.decode("utf8")] = None
                    counters["multi_key_removals"] = counters.get("multi_key_removals", 0) + 1
            if op == "replace_same":
                upd["pad"] = "q" * cur_pad
            if op == "with_unchanged":
                # one update naming several keys, some of them re-submitted with the value they already have (as a caller who rewrites
                # its whole metadata dict does), in any order
                items = [("pad", "p" * max(0, cur_pad + d + (1 if d == 0 else 0)))]
                others = [k for k in model if k not in (b"pad",)]
                for k0 in [others[int(j_)] for j_ in r2.permutation(len(others))[:int(r2.integers(1, 3))]] if others else []:
                    items.append((k0 if case["bytes_api"] else k0.decode("utf8"), model[k0] if r2.random() < 0.5 else model[k0].decode("utf8")))
                if r2.random() < 0.4:
                    items.append(("unch%d" % si, "x"))
                if r2.random() < 0.6:
                    items = [items[int(j_)] for j_ in r2.permutation(len(items))]
                elif len(items) > 1:
                    items = items[:1] + items[2:] + items[1:2]      # an unchanged key last
                upd = dict(items)
                if len(items) > 1:
                    counters["updates_with_unchanged_keys"] = counters.get("updates_with_unchanged_keys", 0) + 1
            if not upd:
                upd["pad"] = "p" * max(0, cur_pad + d)
            if (case["seed"] + si) % 5 == 0:
                # an update the library refuses (a key / value that is neither str nor bytes) must leave the file as it is
                bad_upd = [{"k-int": 1}, {5: "abc"}, {"k-float": 2.5, "ok": "x"}, {"k-list": ["a"]}][(case["seed"] // 5 + si) % 4]
                with open(fpath, "rb") as f_:
                    before_bad = f_.read()
                try:
                    update_file_custom_metadata(fpath, dict(bad_upd))
                    counters["refused_updates_accepted"] = counters.get("refused_updates_accepted", 0) + 1
                    accepted_bad = True
                except Exception as e_:
                    accepted_bad = False
                    counters["refused_updates"] = counters.get("refused_updates", 0) + 1
                with open(fpath, "rb") as f_:
                    after_bad = f_.read()
                if not accepted_bad and after_bad != before_bad:
                    res["failures"].append({"kind": "file_changed_by_refused_update", "size_before": len(before_bad), "size_after": len(after_bad),
                                            "update": repr(bad_upd)[:60], "step": si, "target": target})
                    break
                if accepted_bad:
                    # (not refused after all: the file must at least still be a valid file holding the old keys; the model is re-read)
                    ia_ = R.read_file(fpath, data_dir=os.path.dirname(fpath), check_pages=False)
                    for code, where, detail in ia_.diags:
                        res["failures"].append({"kind": "invalid_after_update", "code": code, "where": where, "detail": detail[:120], "step": si, "target": target})
                    break
            size_before = os.path.getsize(fpath)
            with open(fpath, "rb") as f:
                before = f.read()
            ib = R.read_file(fpath, data_dir=os.path.dirname(fpath), check_pages=False)
            try:
                update_file_custom_metadata(fpath, dict(upd))
            except Exception as e:
                res["failures"].append({"kind": "update_raised", "step": si, "op": op, "target": target, **C.exc_shape(e)})
                break
            for k, v in upd.items():
                if v is None:
                    model.pop(b(k), None)
                else:
                    model[b(k)] = b(v)
            after = open(fpath, "rb").read()
            ia = R.read_file(fpath, data_dir=os.path.dirname(fpath))
            real_delta = (ia.footer_len - ib.footer_len) if (ia.footer_len is not None and ib.footer_len is not None) else None
            ctx = {"step": si, "op": op, "target": target, "footer_delta": real_delta, "file_delta": len(after) - len(before), "big": case["big"]}
            counters["delta:%s" % ("n/a" if real_delta is None else max(-41, min(41, real_delta)))] = 1
            # validity
            for code, where, detail in ia.diags:
                res["failures"].append({"kind": "invalid_after_update", "code": code, "where": where, "detail": detail[:120], **ctx})
            if ia.meta is None:
                break
            if real_delta is not None and len(after) - len(before) != real_delta:
                res["failures"].append({"kind": "file_size_change_differs_from_footer_change", **ctx})
            # data bytes untouched
            if hashlib.sha256(after[:ia.footer_start]).hexdigest() != prefix_hash or ia.footer_start != info0.footer_start:
                res["failures"].append({"kind": "data_bytes_changed", "footer_start": [info0.footer_start, ia.footer_start], **ctx})
            # everything but the key-values unchanged
            fa = frozen_part(ia.meta, CP)
            if fa != frozen0:
                diff = CP.tree_diff(frozen0, fa)
                res["failures"].append({"kind": "other_footer_fields_changed", "diff": [(p, a, b_) for p, a, b_ in diff[:3]], **ctx})
            # the key-value set = model (+ pandas untouched)
            kvs = ia.meta.get("key_value_metadata") or []
            got = {}
            dup = False
            for e in kvs:
                if e.get("key") in got:
                    dup = True
                got[e.get("key")] = e.get("value")
            if dup:
                res["failures"].append({"kind": "duplicate_keys_after_update", **ctx})
            pand0 = {e.get("key"): e.get("value") for e in (info0.meta.get("key_value_metadata") or [])}.get(b"pandas")
            if got.get(b"pandas") != pand0:
                res["failures"].append({"kind": "pandas_metadata_changed", **ctx})
            got.pop(b"pandas", None)
            attrs0 = {e.get("key"): e.get("value") for e in (info0.meta.get("key_value_metadata") or [])}.get(b"PANDAS_ATTRS")
            if got.get(b"PANDAS_ATTRS") != attrs0:
                res["failures"].append({"kind": "frame_attrs_entry_changed", **ctx})
            got.pop(b"PANDAS_ATTRS", None)
            if got != model:
                res["failures"].append({"kind": "key_value_set_differs_from_model", "update": {str(k): (None if v is None else len(v)) for k, v in upd.items()},
                                        "missing": [k.decode("utf8", "replace")[:20] for k in set(model) - set(got)][:4],
                                        "extra": [k.decode("utf8", "replace")[:20] for k in set(got) - set(model)][:4],
                                        "changed": [k.decode("utf8", "replace")[:20] for k in model if k in got and got[k] != model[k]][:4], **ctx})
            # the library's own view
            try:
                pf2 = fastparquet.ParquetFile(path)
                api = {b(k): b(v) for k, v in pf2.key_value_metadata.items() if b(k) not in (b"pandas", b"PANDAS_ATTRS")}
                if api != model:
                    res["failures"].append({"kind": "api_key_value_metadata_differs_from_model", **ctx})
                # the view decodes what is valid UTF-8 to str - also the empty string
                for k_, v_ in pf2.key_value_metadata.items():
                    for what_, x_ in (("key", k_), ("value", v_)):
                        if isinstance(x_, bytes):
                            try:
                                x_.decode("utf8")
                                res["failures"].append({"kind": "api_key_value_left_as_bytes_although_utf8", "what": what_, "repr": repr(x_)[:40], **ctx})
                            except UnicodeDecodeError:
                                pass
                counters["api_views_typed"] = counters.get("api_views_typed", 0) + 1
                t2 = pf2.to_pandas()
                if not t2.equals(table0):
                    res["failures"].append({"kind": "table_changed_after_update", **ctx})
            except Exception as e:
                res["failures"].append({"kind": "unreadable_after_update", **ctx, **C.exc_shape(e)})
            counters["updates_verified"] = counters.get("updates_verified", 0) + 1
            if real_delta is not None:
                cls = "0" if real_delta == 0 else ("-1..-7" if -7 <= real_delta < 0 else ("<=-8" if real_delta < 0 else ("+1..+7" if real_delta <= 7 else ">=+8")))
                counters["deltaclass:" + cls] = counters.get("deltaclass:" + cls, 0) + 1
                feats.add(str((target, real_delta if abs(real_delta) <= 40 else "big", op)))
            done += 1
        # ---- the same update made on a HANDLE derived from another one (slice, copy): the handle it came from keeps its keys
        try:
            import copy as _copy
            from fastparquet.util import update_custom_metadata
            parent = fastparquet.ParquetFile(path)
            raw = lambda h: [(b(kv.key), b(kv.value)) for kv in (h.fmd.key_value_metadata or [])]
            before_parent = raw(parent)
            existing = [k for k, _ in before_parent if k not in (b"pandas", b"PANDAS_ATTRS")]
            if existing:
                import pickle as _pickle
                # (copy.copy shares the metadata object by definition of a shallow copy: not a derived handle in this sense)
                for how, child in (("slice", parent[0:1]), ("pickle", _pickle.loads(_pickle.dumps(parent)))):
                    k0 = existing[(case["seed"] + len(how)) % len(existing)]
                    upd = {(k0 if case["bytes_api"] else k0.decode("utf8")): "changed on the %s" % how, "only-on-%s" % how: "x"}
                    update_custom_metadata(child, upd)
                    if raw(parent) != before_parent:
                        res["failures"].append({"kind": "update_on_a_derived_handle_changed_the_handle_it_came_from", "derived_by": how, "target": target,
                                                "changed": [k.decode("utf8", "replace")[:20] for (k, v), (k2, v2) in zip(before_parent, raw(parent)) if (k, v) != (k2, v2)][:4]})
                        before_parent = raw(parent)
                    got_child = dict(raw(child))
                    if got_child.get(k0) != b("changed on the %s" % how) or got_child.get(b("only-on-%s" % how)) != b"x":
                        res["failures"].append({"kind": "update_on_a_derived_handle_not_applied", "derived_by": how, "target": target})
                    counters["updates_on_derived_handles"] = counters.get("updates_on_derived_handles", 0) + 1
        except Exception as e:
            res["failures"].append({"kind": "update_on_a_derived_handle_raised", "target": target, **C.exc_shape(e)})
        # ---- an update made on a handle whose decoded key-value view has (or has not) been looked at before: the view the handle shows
        # afterwards is the stored list, decoded - whatever form (str / bytes) the caller's keys have
        try:
            from fastparquet.util import update_custom_metadata
            for looked in (True, False):
                for key_form in ("bytes", "str"):
                    h = fastparquet.ParquetFile(path)
                    stored = [(b(kv.key), b(kv.value)) for kv in (h.fmd.key_value_metadata or [])]
                    mine = [k for k, _ in stored if k not in (b"pandas", b"PANDAS_ATTRS")]
                    try:
                        [k.decode("utf8") for k in mine]
                    except UnicodeDecodeError:
                        continue
                    if looked:
                        h.key_value_metadata
                    form = (lambda k: k) if key_form == "bytes" else (lambda k: k.decode("utf8"))
                    upd = {form(b"view-added-%s" % key_form.encode()): "new"}
                    expect = dict(stored)
                    expect[b"view-added-%s" % key_form.encode()] = b"new"
                    if mine:
                        k_rm = mine[case["seed"] % len(mine)]
                        upd[form(k_rm)] = None
                        expect.pop(k_rm, None)
                    if len(mine) > 1:
                        k_rp = mine[(case["seed"] + 1) % len(mine)]
                        upd[form(k_rp)] = "replaced through the handle"
                        expect[k_rp] = b"replaced through the handle"
                    update_custom_metadata(h, upd)
                    view = h.key_value_metadata
                    got_view = {}
                    for k_, v_ in view.items():
                        got_view.setdefault(b(k_), []).append(b(v_))
                    dup = sorted(k_ for k_, vs in got_view.items() if len(vs) > 1)
                    flat = {k_: vs[-1] for k_, vs in got_view.items()}
                    undecoded = [repr(k_)[:30] for k_ in view if isinstance(k_, bytes)]
                    if dup or flat != expect or undecoded:
                        res["failures"].append({"kind": "view_of_the_updated_handle_differs_from_its_stored_keys", "looked_before": looked, "key_form": key_form,
                                                "target": target, "twice": [k_.decode("utf8", "replace")[:20] for k_ in dup][:3], "undecoded_keys": undecoded[:3],
                                                "extra": sorted(k_.decode("utf8", "replace")[:20] for k_ in set(flat) - set(expect))[:3],
                                                "missing": sorted(k_.decode("utf8", "replace")[:20] for k_ in set(expect) - set(flat))[:3],
                                                "wrong_value": sorted(k_.decode("utf8", "replace")[:20] for k_ in set(expect) & set(flat) if expect[k_] != flat[k_])[:3]})
                    counters["views_after_update_on_handle"] = counters.get("views_after_update_on_handle", 0) + 1
        except Exception as e:
            res["failures"].append({"kind": "update_on_a_looked_at_handle_raised", "target": target, **C.exc_shape(e)})
        res["outcome"] = "ok"
        res["nontrivial"] = done > 0
        res["features"] = sorted(feats)
        res["sample"] = {"target": target, "initial_keys": len(init), "steps": [(s["op"], s["delta"]) for s in case["steps"]]}
        return res
    finally:
        C.cleanup(path)


def frozen_part(meta, CP):
    return CP.normalise({k: v for k, v in meta.items() if k != "key_value_metadata"})


def coverage_extra(agg):
    feats = set()
    for r in agg.results.values():
        for f in r.get("features") or []:
            feats.add(f)
    c = agg.counters()
    deltas = sorted(int(k.split(":")[1]) for k in c if k.startswith("delta:") and k.split(":")[1].lstrip("-").isdigit())
    return {"distinct_nontrivial": len(feats), "footer_deltas_seen": deltas}


def required(tier):
    return {"updates_verified": 300, "deltaclass:-1..-7": 15, "deltaclass:<=-8": 15, "deltaclass:+1..+7": 15, "deltaclass:>=+8": 15, "deltaclass:0": 5, "multi_key_removals": 10, "frames_with_attrs": 20, "refused_updates": 20, "updates_with_unchanged_keys": 30, "updates_on_derived_handles": 200, "views_after_update_on_handle": 300, "callers_dicts_compared": 100}
