"""C09 - dataset edit histories follow the model; metadata and directory agree (DESIGN.md 5/C09)."""
import os

import numpy as np

ID = "C09"
LEVEL = "exploration"
FLAVOUR = "plain"
TECHNIQUE = "runtime monitor: sequential model of the dataset content + structural invariants I1-I4 (metadata vs directory) checked at the quiescent point after every operation + audit log of renames/removes"
RULE = ("seeded histories of length 1..8 over {append, append='overwrite', remove_row_groups(subset, sort_pnames), "
        "write_row_groups(sort_key, sort_pnames)} after an initial hive write with 0-2 partition columns, varying row-group sizes, "
        "re-opening from disk or keeping the handle between steps; non-trivial = >=1 edit operation verified; distinct = distinct "
        "(n partitions, operation-kind sequence) tuples")
ASSUMPTIONS = ["rows are identified by a unique rid column; which rows a removed row group held is observed by reading it before the removal",
               "rows with a null partition key do not occur (generator)"]
CASE_TIMEOUT = 120


def _frame(rng, rid0, n, nparts, same_domain=False, cat_partition=False, key_kinds=None):
    import pandas as pd
    d = {"rid": np.arange(rid0, rid0 + n, dtype="int64"),
         "v0": rng.integers(-1000, 1000, n).astype("int64"),
         "v1": np.array(["s%d" % x for x in rng.integers(0, 50, n)], dtype=object)}
    if nparts >= 1:
        d["p0"] = np.array(["a", "b", "c", "d"], dtype=object)[rng.integers(0, 4, n)] if not same_domain else rng.integers(0, 3, n).astype("int64")
    if nparts >= 2:
        d["p1"] = rng.integers(0, 3, n).astype("int64")
    if key_kinds:
        # keys of other kinds: timestamps (directories in ISO format), floats next to integers, booleans
        pools = {"dt": np.array(["2020-01-01", "2020-01-02", "1999-12-31T23:59:59"], dtype="M8[ns]"), "float": np.array([0.5, 1.0, -2.25]),
                 "int": np.array([1, 2, 30], dtype="int64"), "bool": np.array([True, False])}
        for name_, kk in zip(["p0", "p1"][:nparts], key_kinds):
            pool = pools[kk]
            d[name_] = pool[rng.integers(0, len(pool), n)]
    df = pd.DataFrame(d)
    if cat_partition and nparts >= 1 and not same_domain:
        # a categorical key: groupby(observed=False) yields a group for every category / combination, present or not
        df["p0"] = pd.Categorical(df["p0"], categories=["a", "b", "c", "d", "never"])
    return df


def gen_cases(tier, seed):
    rng = np.random.default_rng([seed, 909])
    cases = []
    n = 200 if tier == "quick" else 4000
    for i in range(n):
        nparts = int(i % 3)
        ops = []
        L = int(rng.integers(1, 9))
        for j in range(L):
            kinds = ["append", "append", "remove", "write_rgs", "remove_sorted"]
            if nparts:
                kinds += ["overwrite", "overwrite"]
            k = kinds[int(rng.integers(0, len(kinds)))]
            op = {"op": k, "seed": int(rng.integers(0, 2 ** 31)), "rows": int(rng.integers(1, 40)),
                  "rgo": [None, 3, 7, 15][int(rng.integers(0, 4))], "reopen": bool(rng.integers(0, 2))}
            if k in ("remove", "remove_sorted"):
                op["pick"] = ["first", "last", "middle", "random", "all_but_one", "partition"][int(rng.integers(0, 6))]
                op["sort_pnames"] = (k == "remove_sorted")
            if k == "write_rgs":
                op["sort_key"] = [None, "path", "nrows_desc", "rid"][int(rng.integers(0, 4))]
                op["sort_pnames"] = bool(rng.integers(0, 2))
            if k == "overwrite":
                op["keys"] = int(rng.integers(1, 3))
            ops.append(op)
        cases.append({"id": "H/%d/%d" % (seed, i), "nparts": nparts, "init_seed": int(rng.integers(0, 2 ** 31)),
                      "init_rows": int(rng.integers(1, 60)), "init_rgo": [None, 4, 9, 20][int(rng.integers(0, 4))], "ops": ops,
                      # directory nesting order other than the frame's column order; both key columns over the same values
                      "nesting_reversed": bool(nparts == 2 and i % 4 in (1, 2)), "same_domain": bool(nparts == 2 and i % 8 in (1, 5)),
                      "cat_partition": bool(nparts >= 1 and i % 5 == 3)})
        if nparts and i % 7 == 4:
            cases[-1]["key_kinds"] = [["dt", "float"], ["int", "float"], ["bool", "dt"], ["float", "int"]][(i // 7) % 4][:nparts]
            cases[-1]["same_domain"] = cases[-1]["cat_partition"] = False
    # --- the dataset in a file system of its own, edited through handles opened on that file system
    for i in range(16 if tier == "quick" else 200):
        cases.append({"id": "FS/%d/%d" % (seed, i), "other_filesystem": True, "partitioned": bool(i % 2), "seed": 9900 + 31 * seed + i, "nparts": int(i % 2), "ops": [],
                      })
        cases[-1]["ops"] = [["remove", "append", "remove"], ["append", "remove"], ["remove", "remove", "append", "append"]][i % 3]
    return cases


def check_invariants(path, model_rids, src, ctx, res, counters, aud_events=None):
    """Fresh open + I1..I4 + content vs model."""
    import pandas as pd
    import fastparquet
    from vf.props import common as C
    try:
        pf = fastparquet.ParquetFile(path)
    except Exception as e:
        res["failures"].append({"kind": "reopen_raised", **ctx, **C.exc_shape(e)})
        return None
    rgs = pf.row_groups
    # I4
    if pf.fmd.num_rows != sum(rg.num_rows for rg in rgs):
        res["failures"].append({"kind": "I4_num_rows", "fmd": pf.fmd.num_rows, "sum": sum(rg.num_rows for rg in rgs), **ctx})
    # I1
    refs = {}
    for rg in rgs:
        fp = rg.columns[0].file_path
        refs.setdefault(fp, []).append(rg.num_rows)
    for fp, rows in refs.items():
        full = os.path.join(path, fp) if fp else None
        if not full or not os.path.exists(full):
            res["failures"].append({"kind": "I1_referenced_file_missing", "file": fp, **ctx})
            continue
        try:
            part = fastparquet.ParquetFile(full)
            prow = [rg.num_rows for rg in part.row_groups]
        except Exception as e:
            res["failures"].append({"kind": "I1_part_file_unreadable", "file": fp, **ctx, **C.exc_shape(e)})
            continue
        if sorted(prow) != sorted(rows):
            res["failures"].append({"kind": "I1_row_groups_differ", "file": fp, "metadata": rows, "file_has": prow, **ctx})
        # I3
        if part._schema != pf._schema and [s.name for s in part._schema] != [s.name for s in pf._schema]:
            res["failures"].append({"kind": "I3_part_schema_differs", "file": fp, **ctx})
    counters["I1_files_checked"] = counters.get("I1_files_checked", 0) + len(refs)
    # I1 for every column chunk, not only the first of its row group: any file a chunk names is a referenced file
    def _dec(x):
        return x.decode() if isinstance(x, bytes) else x
    for j, rg in enumerate(rgs):
        names = sorted({str(_dec(c.file_path)) for c in rg.columns})
        counters["I1_chunk_paths_checked"] = counters.get("I1_chunk_paths_checked", 0) + len(rg.columns)
        if len(names) > 1:
            res["failures"].append({"kind": "I1_chunks_of_one_row_group_name_different_files", "row_group": j, "files": names[:4],
                                    "missing": [n for n in names if not os.path.exists(os.path.join(path, n))][:4], **ctx})
    # I2
    on_disk = set()
    for d, dirs, files in os.walk(path):
        for fn in files:
            rel = os.path.relpath(os.path.join(d, fn), path).replace(os.sep, "/")
            if fn in ("_metadata", "_common_metadata"):
                continue
            on_disk.add(rel)
    stray = sorted(on_disk - set(refs))
    if stray:
        res["failures"].append({"kind": "I2_unreferenced_file", "files": stray[:6], "n": len(stray), **ctx})
    # I3 (summary files)
    cm = os.path.join(path, "_common_metadata")
    if os.path.exists(cm):
        try:
            pc = fastparquet.ParquetFile(cm)
            if [s.name for s in pc._schema] != [s.name for s in pf._schema] or pc._schema != pf._schema:
                res["failures"].append({"kind": "I3_common_metadata_schema_differs", **ctx})
        except Exception as e:
            res["failures"].append({"kind": "I3_common_metadata_unreadable", **ctx, **C.exc_shape(e)})
    else:
        res["failures"].append({"kind": "I3_common_metadata_missing", **ctx})
    counters["invariant_checks"] = counters.get("invariant_checks", 0) + 1
    # content
    try:
        got = pf.to_pandas(index=False) if len(rgs) else pd.DataFrame({"rid": []})
    except Exception as e:
        res["failures"].append({"kind": "read_raised", **ctx, **C.exc_shape(e)})
        return pf
    grids = [int(x) for x in got["rid"].tolist()]
    if sorted(grids) != sorted(model_rids):
        res["failures"].append({"kind": "content_differs_from_model", "expected": len(model_rids), "got": len(grids),
                                "missing": sorted(set(model_rids) - set(grids))[:5], "extra": sorted(set(grids) - set(model_rids))[:5],
                                "dup": len(grids) - len(set(grids)), **ctx})
    elif len(grids):
        exp = src.loc[grids]
        for c in ("v0", "v1"):
            if got[c].astype(object).tolist() != exp[c].astype(object).tolist():
                res["failures"].append({"kind": "cell_values_differ", "column": c, **ctx})
        for c in [c for c in src.columns if c.startswith("p")]:
            if c not in got.columns:
                res["failures"].append({"kind": "partition_column_missing", "column": c, **ctx})
            elif [str(x) for x in got[c].astype(object).tolist()] != [str(x) for x in exp[c].astype(object).tolist()]:
                res["failures"].append({"kind": "partition_values_differ", "column": c, **ctx})
        counters["rows_compared"] = counters.get("rows_compared", 0) + len(grids)
    return pf


def run_other_filesystem(case):
    """The dataset lives in a file system of its own (fsspec's in-memory one) and is edited through handles opened on it: after every
    edit a fresh handle on that file system must read the model, and every file _metadata names must exist there."""
    import fsspec
    import pandas as pd
    import fastparquet
    from vf.props import common as C
    counters = {}
    res = {"features": [], "nontrivial": False, "failures": [], "counters": counters}
    fs = fsspec.filesystem("memory")
    root = "/vf-c09-%s" % case["id"].replace("/", "-")
    if fs.exists(root):
        fs.rm(root, recursive=True)
    rng = np.random.default_rng([case["seed"], 9])
    try:
        n = 24
        df = pd.DataFrame({"rid": np.arange(n, dtype="int64"), "v": rng.standard_normal(n), "p0": np.array(["u", "w"], dtype=object)[np.arange(n) % 2]})
        mk = lambda d_: fs.mkdirs(d_, exist_ok=True)
        kw = {"file_scheme": "hive", "open_with": fs.open, "mkdirs": mk, "row_group_offsets": 6}
        if case["partitioned"]:
            kw["partition_on"] = ["p0"]
        fastparquet.write(root, df, **kw)
        model = set(range(n))
        next_rid = n
        for step, op in enumerate(case["ops"]):
            pf = fastparquet.ParquetFile(root, fs=fs)
            ctx = {"step": step, "op": op, "partitioned": case["partitioned"], "file_system": "memory"}
            try:
                if op == "remove":
                    i = int(rng.integers(0, len(pf.row_groups)))
                    gone = set(int(x) for x in pf[i].to_pandas(columns=["rid"], index=False)["rid"].tolist())
                    pf.remove_row_groups(pf.row_groups[i])
                    model -= gone
                else:
                    new = pd.DataFrame({"rid": np.arange(next_rid, next_rid + 4, dtype="int64"), "v": rng.standard_normal(4), "p0": np.array(["u", "w", "u", "w"], dtype=object)})
                    next_rid += 4
                    pf.write_row_groups(new, mkdirs=mk)
                    model |= set(new["rid"].tolist())
            except Exception as e:
                res["failures"].append({"kind": "operation_raised", **ctx, **C.exc_shape(e)})
            try:
                fresh = fastparquet.ParquetFile(root, fs=fs)
                paths_ = {(c.file_path.decode() if isinstance(c.file_path, bytes) else c.file_path) for rg in fresh.row_groups for c in rg.columns}
                missing = sorted(p_ for p_ in paths_ if not fs.exists(root + "/" + p_))
                if missing:
                    res["failures"].append({"kind": "I1_metadata_names_missing_file", "missing": missing[:4], **ctx})
                got = sorted(int(x) for x in fresh.to_pandas(columns=["rid"], index=False)["rid"].tolist())
                if got != sorted(model):
                    res["failures"].append({"kind": "content_differs_from_model", "n_got": len(got), "n_model": len(model), **ctx})
            except Exception as e:
                res["failures"].append({"kind": "dataset_unreadable_after_operation", **ctx, **C.exc_shape(e)})
                break
            counters["edits_through_handles_on_another_file_system"] = counters.get("edits_through_handles_on_another_file_system", 0) + 1
            counters["invariant_checks"] = counters.get("invariant_checks", 0) + 1
        res["outcome"] = "ok"
        res["nontrivial"] = True
        res["features"] = [str(("memory_fs", case["partitioned"], tuple(case["ops"])))]
        return res
    finally:
        try:
            fs.rm(root, recursive=True)
        except Exception:
            pass


def run_case(case):
    if case.get("other_filesystem"):
        return run_other_filesystem(case)
    import pandas as pd
    import fastparquet
    from vf.props import common as C
    from vf.mon import fsmon
    nparts = case["nparts"]
    pcols = ["p0", "p1"][:nparts]
    if case.get("nesting_reversed"):
        pcols = pcols[::-1]
    path = C.fresh_path("")
    counters = {}
    res = {"features": [], "nontrivial": False, "failures": [], "counters": counters}
    try:
        rng0 = np.random.default_rng([case["init_seed"], 1])
        df = _frame(rng0, 0, case["init_rows"], nparts, case.get("same_domain", False), case.get("cat_partition", False), case.get("key_kinds"))
        kw = {"file_scheme": "hive"}
        if pcols:
            kw["partition_on"] = pcols
        if case["init_rgo"]:
            kw["row_group_offsets"] = case["init_rgo"]
        fastparquet.write(path, df, **kw)
        src = df.set_index("rid", drop=False)
        model = set(df["rid"].tolist())
        next_rid = len(df)
        ctx0 = {"nparts": nparts, "step": -1, "op": "write", "history": []}
        pf = check_invariants(path, sorted(model), src, ctx0, res, counters)
        done = 0
        hist = []
        for si, op in enumerate(case["ops"]):
            if res["failures"]:
                break
            rng = np.random.default_rng([op["seed"], 2])
            if op["reopen"] or pf is None:
                pf = fastparquet.ParquetFile(path)
                handle = "fresh"
            else:
                handle = "kept"
            k = op["op"]
            hist.append(k + ("/" + handle))
            ctx = {"nparts": nparts, "step": si, "op": k, "handle": handle, "history": list(hist), "opdetail": {x: op[x] for x in op if x not in ("seed",)},
                   "rows_before": len(model), "row_groups_before": len(pf.row_groups)}
            nrg = len(pf.row_groups)
            with fsmon.Audit(path) as aud:
                try:
                    if k == "append":
                        new = _frame(rng, next_rid, op["rows"], nparts, case.get("same_domain", False), case.get("cat_partition", False), case.get("key_kinds"))
                        next_rid += len(new)
                        kw = {"file_scheme": "hive", "append": True}
                        if pcols:
                            kw["partition_on"] = pcols
                        if op["rgo"]:
                            kw["row_group_offsets"] = op["rgo"]
                        fastparquet.write(path, new, **kw)
                        src = pd.concat([src, new.set_index("rid", drop=False)])
                        model |= set(new["rid"].tolist())
                        pf = None
                    elif k == "overwrite":
                        new = _frame(rng, next_rid, op["rows"], nparts, case.get("same_domain", False), case.get("cat_partition", False), case.get("key_kinds"))
                        next_rid += len(new)
                        # restrict new data to a few partitions so that others must stay untouched
                        keys = sorted(set(new["p0"]))[:op["keys"]]
                        new = new[new["p0"].isin(keys)].reset_index(drop=True)
                        if not len(new):
                            continue
                        fastparquet.write(path, new, file_scheme="hive", partition_on=pcols, append="overwrite",
                                          **({"row_group_offsets": op["rgo"]} if op["rgo"] else {}))
                        # (one rendering for both sides: a column of midnights prints as dates through astype(str), a single Timestamp never does)
                        _k = lambda v_: str(pd.Timestamp(v_)) if isinstance(v_, (pd.Timestamp, np.datetime64)) else str(v_)
                        newkeys = set(tuple(_k(v_) for v_ in row_) for row_ in new[pcols].itertuples(index=False, name=None))
                        gone = {r for r in model if tuple(_k(src.loc[r, c]) for c in pcols) in newkeys}
                        model = (model - gone) | set(new["rid"].tolist())
                        src = pd.concat([src, new.set_index("rid", drop=False)])
                        ctx["overwritten_partitions"] = sorted("/".join(t) for t in newkeys)
                        pf = None
                    elif k in ("remove", "remove_sorted"):
                        if nrg == 0:
                            continue
                        idx = list(range(nrg))
                        pick = op["pick"]
                        if pick == "first":
                            sel = idx[:1]
                        elif pick == "last":
                            sel = idx[-1:]
                        elif pick == "middle":
                            sel = idx[len(idx) // 2: len(idx) // 2 + 1]
                        elif pick == "random":
                            sel = [i for i in idx if rng.random() < 0.4] or idx[:1]
                        elif pick == "all_but_one":
                            sel = idx[1:] or idx
                        else:
                            fp = pf.row_groups[int(rng.integers(0, nrg))].columns[0].file_path
                            d0 = fp.rsplit("/", 1)[0] if "/" in fp else None
                            sel = [i for i in idx if (pf.row_groups[i].columns[0].file_path.rsplit("/", 1)[0] if "/" in pf.row_groups[i].columns[0].file_path else None) == d0]
                        removed = set()
                        for i in sel:
                            removed |= set(int(x) for x in pf[i].to_pandas(columns=["rid"], index=False)["rid"].tolist())
                        ctx["removed_row_groups"] = sel
                        victims = [pf.row_groups[i] for i in sel]
                        if op["seed"] % 3 == 0:
                            # the row groups to drop are picked on another (freshly opened) handle of the same dataset: equal, not identical
                            other = fastparquet.ParquetFile(path)
                            if len(other.row_groups) == nrg:
                                victims = [other.row_groups[i] for i in sel]
                                counters["removals_of_row_groups_taken_from_another_handle"] = counters.get("removals_of_row_groups_taken_from_another_handle", 0) + 1
                        pf.remove_row_groups(victims, sort_pnames=op["sort_pnames"])
                        model -= removed
                    elif k == "write_rgs":
                        new = _frame(rng, next_rid, op["rows"], nparts, case.get("same_domain", False), case.get("cat_partition", False), case.get("key_kinds"))
                        next_rid += len(new)
                        sk = {None: None, "path": (lambda rg: rg.columns[0].file_path), "nrows_desc": (lambda rg: -rg.num_rows),
                              "rid": (lambda rg: int.from_bytes(rg.columns[0].meta_data.statistics.min or b"\0", "little", signed=True)
                                      if rg.columns[0].meta_data.statistics is not None else 0)}[op["sort_key"]]
                        pf.write_row_groups(new, row_group_offsets=op["rgo"], sort_key=sk, sort_pnames=op["sort_pnames"])
                        src = pd.concat([src, new.set_index("rid", drop=False)])
                        model |= set(new["rid"].tolist())
                except Exception as e:
                    res["failures"].append({"kind": "operation_raised", **ctx, **C.exc_shape(e)})
                    break
            # audit: renames
            for ev in aud.events:
                if ev[0] == "rename":
                    counters["renames_observed"] = counters.get("renames_observed", 0) + 1
                    if not ev[3]:
                        res["failures"].append({"kind": "rename_source_missing", "src": os.path.relpath(ev[1], path), **ctx})
                    if ev[4]:
                        res["failures"].append({"kind": "rename_overwrites_existing_file", "src": os.path.relpath(ev[1], path),
                                                "dst": os.path.relpath(ev[2], path), **ctx})
                elif ev[0] == "remove":
                    counters["removes_observed"] = counters.get("removes_observed", 0) + 1
            kept = pf
            fresh = check_invariants(path, sorted(model), src, ctx, res, counters)
            if kept is not None and fresh is not None and handle is not None:
                # the handle used for the edit must agree with a fresh open
                try:
                    a = [(rg.columns[0].file_path, rg.num_rows) for rg in kept.row_groups]
                    b = [(rg.columns[0].file_path, rg.num_rows) for rg in fresh.row_groups]
                    if a != b:
                        res["failures"].append({"kind": "kept_handle_differs_from_disk", "kept": a[:6], "disk": b[:6], **ctx})
                except Exception:
                    pass
            pf = kept if kept is not None else fresh
            counters["op:" + k] = counters.get("op:" + k, 0) + 1
            done += 1
        res["outcome"] = "ok"
        res["nontrivial"] = done > 0
        res["features"] = [nparts, [h.split("/")[0] for h in hist]]
        res["sample"] = {"nparts": nparts, "history": hist, "final_rows": len(model)}
        return res
    finally:
        C.cleanup(path)


def required(tier):
    return {"invariant_checks": 600, "op:append": 100, "op:overwrite": 50, "op:remove": 50, "op:remove_sorted": 50, "op:write_rgs": 50,
            "renames_observed": 50, "I1_files_checked": 2000, "removals_of_row_groups_taken_from_another_handle": 20, "edits_through_handles_on_another_file_system": 30}
