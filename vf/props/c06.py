"""C06 - every partial read agrees with the corresponding part of the full read (DESIGN.md 5/C06)."""
import copy
import io
import pickle

import numpy as np

ID = "C06"
LEVEL = "exploration"
FLAVOUR = "plain"
TECHNIQUE = "runtime monitor: metamorphic oracle (partial read vs projection of the full read of the same handle) over generated access programs"
RULE = ("seeded datasets (simple/hive/drill, 0-2 partition columns, any row-group split incl. 0 row groups) x ~30 generated access "
        "programs each (handle transforms slice/pick/pickle/copy/deepcopy/file-like composed up to depth 3, then a terminal "
        "to_pandas(columns,index)/iter_row_groups/head(n)/count); non-trivial = program result compared on >=1 row; distinct = "
        "distinct (scheme, n_partitions, transform chain kinds, terminal kind, index mode) tuples")
ASSUMPTIONS = ["the full read of the same handle is the oracle (tied to the input by C01)",
               "labels of an automatic range index are not compared"]
CASE_TIMEOUT = 120

from vf.gen import datasets as D
from vf.gen import frames as F


def gen_cases(tier, seed):
    rng = np.random.default_rng([seed, 606])
    n = 260 if tier == "quick" else 5000
    cases = []
    for i in range(n):
        c = D.random_dataset(rng, "D/%d/%d" % (seed, i), max_rows=200 if tier == "quick" else 600)
        c["pseed"] = int(rng.integers(0, 2 ** 31))
        c["nprog"] = 30
        cases.append(c)
    for i in range(28 if tier == "quick" else 120):
        c = D.random_dataset(rng, "MI/%d/%d" % (seed, i), max_rows=60)
        c["pseed"] = int(rng.integers(0, 2 ** 31))
        c["nprog"] = 12
        c["multi"] = True
        cases.append(c)
    # files of other writers, without pandas metadata: the third-party files of test-data and recipe files of the reference writer
    import glob
    import os
    from vf import REPO
    for p_ in sorted(glob.glob(os.path.join(REPO, "test-data", "*.parquet")) + glob.glob(os.path.join(REPO, "test-data", "*.parq"))):
        cases.append({"id": "T/" + os.path.basename(p_), "foreign": os.path.relpath(p_, REPO), "pseed": len(cases), "nprog": 14,
                      "frame": None, "opts": {"file_scheme": "simple" if os.path.isfile(p_) else "hive"}})
    from vf.gen import recipes as RC
    for i in range(40 if tier == "quick" else 600):
        rec = RC.random_recipe(rng, flat=True, thin=True)
        # delta-packed columns are left to C03/C12 (their decoder has open native findings that take the interpreter down)
        for c_ in rec["columns"]:
            if c_.get("encoding") == "DELTA_BINARY_PACKED":
                c_["encoding"] = "PLAIN"
        cases.append({"id": "R/%d/%d" % (seed, i), "recipe": rec, "pseed": int(rng.integers(0, 2 ** 31)), "nprog": 14, "frame": None, "opts": {}})
    # deterministic corner datasets: zero rows, single row, zero-row groups
    for j, (n_rows, scheme) in enumerate([(0, "simple"), (0, "hive"), (1, "simple"), (1, "hive"), (5, "drill")]):
        c = D.random_dataset(np.random.default_rng([7, j]), "Z/%d" % j, scheme=scheme, n_part=0, max_rows=1)
        c["frame"]["nrows"] = n_rows
        c["opts"]["row_group_offsets"] = None
        c["pseed"] = j
        c["nprog"] = 30
        cases.append(c)
    return cases


def gen_program(rng, nrg, colnames, index_cols, scheme, nrows, filecols=None, multi=False):
    filecols = filecols or colnames
    chain = []
    for _ in range(int(rng.integers(0, 4))):
        k = ["slice", "pick", "pickle", "copy", "deepcopy", "filelike", "slice", "pickle"][int(rng.integers(0, 8))]
        if k == "slice":
            lo = int(rng.integers(-nrg - 2, nrg + 3))
            hi = int(rng.integers(-nrg - 2, nrg + 3))
            st = int([1, 1, 2, -1, 3][int(rng.integers(0, 5))])
            chain.append({"t": "slice", "a": [None if rng.random() < 0.2 else lo, None if rng.random() < 0.2 else hi, None if rng.random() < 0.3 else st]})
        elif k == "pick":
            if nrg:
                chain.append({"t": "pick", "i": int(rng.integers(-nrg, nrg))})
        elif k == "filelike":
            if scheme == "simple" and not chain:
                chain.append({"t": "filelike", "kind": ["file", "bytesio", "shared"][int(rng.integers(0, 3))]})
        elif k in ("pickle", "deepcopy") and any(c["t"] == "filelike" for c in chain):
            continue   # a handle wrapping an open file object cannot be pickled (file objects are not picklable)
        else:
            chain.append({"t": k})
    tk = ["to_pandas", "to_pandas", "iter", "head", "count", "to_pandas"][int(rng.integers(0, 6))]
    term = {"t": tk}
    if tk in ("to_pandas", "iter", "head"):
        if rng.random() < 0.6 and colnames:
            k = int(rng.integers(1, len(colnames) + 1))
            term["columns"] = [colnames[i] for i in rng.permutation(len(colnames))[:k]]
        im = int(rng.integers(0, 4))
        if im == 1:
            term["index"] = False
        elif im == 2 and filecols:
            term["index"] = filecols[int(rng.integers(0, len(filecols)))]
            pcols_ = [c for c in colnames if c not in filecols]
            if pcols_ and rng.random() < 0.35:
                term["index"] = pcols_[int(rng.integers(0, len(pcols_)))]      # a partition column as the index
                term["index_is_partition_column"] = True
        elif im == 3 and len(filecols) >= 2 and multi:
            term["index"] = [filecols[0], filecols[-1]]
        if multi and len(filecols) >= 2 and rng.random() < 0.5:
            # a several-level index whose levels the caller also lists in columns=, in another order than the levels have
            a_, b_ = [filecols[int(i)] for i in rng.permutation(len(filecols))[:2]]
            term["index"] = [a_, b_]
            others = [c for c in colnames if c not in (a_, b_)]
            keep = [others[int(i)] for i in rng.permutation(len(others))[:int(rng.integers(0, len(others) + 1))]]
            cols_ = keep[:len(keep) // 2] + [b_] + keep[len(keep) // 2:] + [a_]
            term["columns"] = cols_ if rng.random() < 0.7 else [b_, a_] + keep
            term["levels_listed_in_another_order"] = True
    if tk == "head":
        term["n"] = int([0, 1, 2, nrows, nrows + 1, max(0, nrows // 2), 7][int(rng.integers(0, 7))])
    return {"chain": chain, "term": term}


class _SharedByCaller(io.FileIO):
    """A file object the caller goes on using between the library's reads (it looks at the magic bytes now and then)."""
    _vf_shared = True

    def __init__(self, path):
        super().__init__(path, "rb")

    def caller_uses_it(self):
        self.seek(0)
        self.read(4)


def apply_chain(pf, chain, path, sel, holder):
    """Apply handle transforms; `sel` is the list of selected row-group indices (model)."""
    import fastparquet
    for st in chain:
        t = st["t"]
        if t == "slice":
            sl = slice(*st["a"])
            pf = pf[sl]
            sel = sel[sl]
        elif t == "pick":
            pf = pf[st["i"]]
            sel = [sel[st["i"]]]
        elif t == "pickle":
            pf = pickle.loads(pickle.dumps(pf))
        elif t == "copy":
            pf = copy.copy(pf)
        elif t == "deepcopy":
            pf = copy.deepcopy(pf)
        elif t == "filelike":
            if st["kind"] == "file":
                f = open(path, "rb")
                holder.append(f)
            elif st["kind"] == "shared":
                # ONE file object per case, which every such program opens a handle on and which the caller itself keeps using
                f = next((x for x in holder if getattr(x, "_vf_shared", False)), None)
                if f is None:
                    f = _SharedByCaller(path)
                    holder.append(f)
            else:
                with open(path, "rb") as fh:
                    f = io.BytesIO(fh.read())
            pf = fastparquet.ParquetFile(f)
    return pf, sel


def run_case(case):
    import pandas as pd
    import fastparquet
    from vf.props import common as C
    from vf.mon import tables as T
    import os
    opts = case["opts"]
    scheme = opts.get("file_scheme", "simple")
    counters = {}
    res = {"features": [], "nontrivial": False, "failures": [], "counters": counters}
    feats = set()
    holder = []
    foreign = bool(case.get("foreign") or case.get("recipe"))
    if case.get("foreign"):
        from vf import REPO
        path = os.path.join(REPO, case["foreign"])       # read only, never cleaned up
    else:
        path = C.fresh_path(".parq" if scheme == "simple" else "")
    try:
        if case.get("recipe"):
            from vf.gen import recipes as RC
            RC.write_recipe(case["recipe"], path)
        elif not foreign:
            df = D.build_dataset_frame(case)
            with C.writer_globals(case.get("page_size"), case.get("dpv")):
                try:
                    fastparquet.write(path, df, **C.write_kwargs(opts))
                except Exception as e:
                    res["outcome"] = "rejected"
                    res["reject"] = C.exc_shape(e)
                    counters["write_rejected"] = 1
                    return res
        if case.get("foreign") and os.path.isfile(path):
            # a bit-packed run whose last group is not padded makes fastparquet read past its input (open native finding, decided by
            # C12): what it decodes there depends on the heap, so two reads of the same file may differ - not a partial-read question
            from vf.ref import reader as R
            try:
                notes = R.read_file(path).notes
            except Exception:
                notes = []
            if any(n_[0] == "SHORT_BP_GROUP" for n_ in notes):
                res["outcome"] = "skip"
                counters["foreign_skipped_short_bit_packed_group"] = 1
                return res
        if foreign:
            counters["foreign_files"] = 1
        try:
            pf = fastparquet.ParquetFile(path)
            flat = pf.to_pandas(index=False)
            full = pf.to_pandas()
        except Exception as e:
            res["outcome"] = "skip"   # C01's business
            res["reject"] = C.exc_shape(e)
            counters["full_read_failed"] = 1
            return res
        nrg = len(pf.row_groups)
        rg_rows = [rg.num_rows for rg in pf.row_groups]
        offs = np.concatenate([[0], np.cumsum(rg_rows)]).astype(int)
        colnames = list(flat.columns)
        meta_index = pf._get_index()
        # self-consistency of the oracle: default read == flat with the metadata index set
        if sum(rg_rows) != len(flat):
            res["failures"].append({"kind": "count_mismatch", "what": "sum(rg.num_rows) vs rows read", "expected": int(sum(rg_rows)), "got": len(flat)})
        if len(pf) != nrg or pf.count() != len(flat) or pf.info["rows"] != len(flat) or pf.info["row_groups"] != nrg:
            res["failures"].append({"kind": "count_mismatch", "what": "len/count/info", "got": [len(pf), int(pf.count()), pf.info["rows"]], "expected": [nrg, len(flat)]})
        rng = np.random.default_rng([case["pseed"], 1])
        nprog = case.get("nprog", 30)
        n_cmp = 0
        shared_sel = {}
        for k in range(nprog):
            prog = gen_program(rng, nrg, colnames, meta_index, scheme, len(flat), filecols=[c for c in colnames if c not in pf.cats], multi=bool(case.get("multi")))
            if k == 0:
                prog = {"chain": [], "term": {"t": "head", "n": 3}}   # always: head on the plain handle
            if k == 1:
                prog = {"chain": [{"t": "pickle"}], "term": {"t": "iter"}}
            sel = list(range(nrg))
            try:
                h, sel = apply_chain(pf, prog["chain"], path, sel, holder)
            except IndexError as e:
                # model must agree that the pick is out of range
                try:
                    _ = _model_sel(prog["chain"], nrg)
                    res["failures"].append({"kind": "program_raised", "prog": prog, **C.exc_shape(e)})
                except IndexError:
                    counters["pick_out_of_range_agreed"] = counters.get("pick_out_of_range_agreed", 0) + 1
                continue
            except Exception as e:
                res["failures"].append({"kind": "program_raised", "stage": "chain", "prog": prog, **C.exc_shape(e)})
                continue
            rows = np.concatenate([np.arange(offs[i], offs[i + 1]) for i in sel]) if sel else np.array([], dtype=int)
            term = prog["term"]
            cols = term.get("columns")
            index = term.get("index")
            try:
                exp = _expected(flat, rows, cols, index, meta_index, colnames)
            except KeyError:
                continue
            except ValueError:
                counters["expectation_not_constructible"] = counters.get("expectation_not_constructible", 0) + 1   # pandas refuses this set_index
                continue
            fkey = (scheme, len(opts.get("partition_on") or []), tuple(s["t"] for s in prog["chain"]), term["t"],
                    "none" if index is None else ("false" if index is False else "named"), cols is None)
            try:
                kw = {}
                if cols is not None:
                    # one list object per distinct selection, reused by every later read of this case (as a caller holding a selection does)
                    kw["columns"] = shared_sel.setdefault(tuple(cols), list(cols))
                    counters["reads_with_a_reused_selection_object"] = counters.get("reads_with_a_reused_selection_object", 0) + 1
                    if k % 5 == 3:
                        kw["columns"] = tuple(cols)        # (a tuple is a selection too)
                        counters["selections_given_as_tuples"] = counters.get("selections_given_as_tuples", 0) + 1
                if "index" in term:
                    kw["index"] = index
                if term["t"] == "to_pandas":
                    got = h.to_pandas(**kw)
                elif term["t"] == "iter":
                    shared_ = next((x for x in holder if getattr(x, "_vf_shared", False)), None) if any(c_.get("kind") == "shared" for c_ in prog["chain"]) else None
                    parts = []
                    for part_ in h.iter_row_groups(**kw):
                        parts.append(part_)
                        if shared_ is not None:
                            shared_.caller_uses_it()         # between two partial reads the caller moves its file object
                            counters["caller_moved_shared_file_between_reads"] = counters.get("caller_moved_shared_file_between_reads", 0) + 1
                    counters["iter_parts"] = counters.get("iter_parts", 0) + len(parts)
                    if any(len(p_) == 0 for p_ in parts):
                        res["failures"].append({"kind": "iter_yielded_empty", "prog": prog})
                    nonempty = [i for i in sel if rg_rows[i] > 0]
                    if len(parts) != len(nonempty):
                        res["failures"].append({"kind": "iter_parts_count", "prog": prog, "expected": len(nonempty), "got": len(parts),
                                                "n_columns_requested": None if cols is None else len(cols),
                                                "only_index_columns": bool(cols is not None and index not in (None, False) and set(cols) <= set([index] if isinstance(index, str) else index))})
                        continue
                    ok_parts = 0
                    for i, part in zip(nonempty, parts):
                        try:
                            e_i = _expected(flat, np.arange(offs[i], offs[i + 1]), cols, index, meta_index, colnames)
                        except ValueError:
                            # pandas refuses this set_index (e.g. two int64 labels whose difference overflows): no expectation for this part
                            counters["expectation_not_constructible"] = counters.get("expectation_not_constructible", 0) + 1
                            continue
                        ci = e_i.index.names != [None] and not isinstance(e_i.index, pd.RangeIndex)
                        if not ci:
                            e_i = e_i.reset_index(drop=True)
                            part = part.reset_index(drop=True)
                        fl = T.same_table(e_i, part, check_index=ci, cat_strict=False)
                        for f in fl:
                            f["prog"] = prog
                            f["n_rg"] = nrg
                            f["rg"] = i
                        res["failures"] += fl
                        ok_parts += 1
                    counters["programs_compared"] = counters.get("programs_compared", 0) + 1
                    counters["t:iter"] = counters.get("t:iter", 0) + 1
                    for s_ in prog["chain"]:
                        counters["x:" + s_["t"]] = counters.get("x:" + s_["t"], 0) + 1
                    if ok_parts:
                        n_cmp += 1
                        feats.add(fkey)
                    continue
                elif term["t"] == "head":
                    got = h.head(term["n"], **kw)
                    exp = exp.iloc[:term["n"]]
                elif term["t"] == "count":
                    cnt = (int(h.count()), len(h), int(h.info["rows"]), sum(rg.num_rows for rg in h.row_groups))
                    if cnt != (len(rows), len(sel), len(rows), len(rows)):
                        res["failures"].append({"kind": "count_mismatch", "prog": prog, "got": list(cnt), "expected": [len(rows), len(sel)]})
                    n_cmp += 1
                    feats.add(fkey)
                    counters["programs_compared"] = counters.get("programs_compared", 0) + 1
                    continue
            except Exception as e:
                res["failures"].append({"kind": "program_raised", "stage": term["t"], "prog": prog, "n_rg": nrg, "n_sel": len(sel),
                                        "partition_on": opts.get("partition_on") or [], **C.exc_shape(e)})
                continue
            finally:
                if cols is not None and kw.get("columns") is not None and list(kw["columns"]) != list(cols):
                    res["failures"].append({"kind": "read_changed_the_callers_selection", "prog": prog, "selection_before": list(cols), "selection_after": list(kw["columns"])[:12]})
                    shared_sel[tuple(cols)] = list(cols)
            if got is None:
                if len(exp):
                    res["failures"].append({"kind": "iter_lost_rows", "prog": prog, "expected_rows": len(exp)})
                continue
            check_index = exp.index.names != [None] and not isinstance(exp.index, pd.RangeIndex)
            if not check_index:
                exp = exp.reset_index(drop=True)
                got = got.reset_index(drop=True)
            fails = T.same_table(exp, got, check_index=check_index, cat_strict=False)
            for f in fails:
                f["prog"] = prog
                f["n_rg"] = nrg
                f["n_sel"] = len(sel)
                f["partition_on"] = opts.get("partition_on") or []
            res["failures"] += fails
            counters["programs_compared"] = counters.get("programs_compared", 0) + 1
            if term.get("levels_listed_in_another_order"):
                counters["levels_of_a_chosen_index_listed_in_columns_in_another_order"] = counters.get("levels_of_a_chosen_index_listed_in_columns_in_another_order", 0) + 1
            if term.get("index_is_partition_column"):
                counters["programs_with_a_partition_column_as_index"] = counters.get("programs_with_a_partition_column_as_index", 0) + 1
            counters["t:" + term["t"]] = counters.get("t:" + term["t"], 0) + 1
            for s in prog["chain"]:
                counters["x:" + s["t"]] = counters.get("x:" + s["t"], 0) + 1
            if len(exp):
                n_cmp += 1
                feats.add(fkey)
        for f in res["failures"]:
            pr = f.get("prog")
            if pr:
                ix = pr["term"].get("index")
                names = [] if ix in (None, False) else ([ix] if isinstance(ix, str) else list(ix))
                f["index_dtypes"] = {n_: str(flat[n_].dtype) for n_ in names if n_ in flat}
                f.setdefault("partition_on", opts.get("partition_on") or [])
                try:
                    f.setdefault("n_sel", len(_model_sel(pr["chain"], nrg)))
                except IndexError:
                    pass
        res["outcome"] = "ok"
        res["nontrivial"] = n_cmp > 0
        res["features"] = sorted(feats)
        res["sample"] = {"dataset": {"rows": len(flat), "row_groups": nrg, "scheme": scheme, "partition_on": opts.get("partition_on")},
                         "last_program": prog}
        return res
    finally:
        for f in holder:
            try:
                f.close()
            except Exception:
                pass
        if not case.get("foreign"):
            C.cleanup(path)


def _model_sel(chain, nrg):
    sel = list(range(nrg))
    for st in chain:
        if st["t"] == "slice":
            sel = sel[slice(*st["a"])]
        elif st["t"] == "pick":
            sel = [sel[st["i"]]]
    return sel


def _expected(flat, rows, cols, index, meta_index, colnames):
    sub = flat.iloc[rows]
    if index is None:
        idx = list(meta_index)
    elif index is False:
        idx = []
    elif isinstance(index, str):
        idx = [index]
    else:
        idx = list(index)
    if cols is None:
        cols = list(colnames)
    cols = list(cols) + [i for i in idx if i not in cols]
    sub = sub[cols]
    if idx:
        sub = sub.set_index(idx)
    return sub


def finalize(agg):
    # features are lists of tuples per case; flatten for the distinct count
    for r in agg.results.values():
        pass


def coverage_extra(agg):
    feats = set()
    for r in agg.results.values():
        for f in r.get("features") or []:
            feats.add(str(f))
    return {"distinct_nontrivial": len(feats), "distinct_rule_note": "distinct (scheme, n_part, transform chain, terminal, index mode, all-columns) tuples whose comparison involved >=1 row"}


def required(tier):
    return {"programs_compared": 2000, "x:slice": 100, "x:pickle": 100, "x:deepcopy": 50, "x:filelike": 10, "t:head": 100, "t:iter": 100, "reads_with_a_reused_selection_object": 500, "programs_with_a_partition_column_as_index": 30, "caller_moved_shared_file_between_reads": 8, "selections_given_as_tuples": 200, "levels_of_a_chosen_index_listed_in_columns_in_another_order": 4}
