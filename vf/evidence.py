"""Evidence writer (schema: /root/.vp/EVIDENCE.schema.json)."""
import json
import os

from . import ROOT, build


def _path(prop):
    d = os.path.join(ROOT, "evidence")
    os.makedirs(d, exist_ok=True)
    if os.environ.get("VF_ONLY") or os.environ.get("VF_PARTIAL"):
        # a run restricted to some cases (debugging aid, replay) must not replace the record of a full run
        return os.path.join(d, prop + ".partial.json")
    return os.path.join(d, prop + ".json")


def write(agg, counters, violations, knowns, wall):
    mod = agg.mod
    feats = set()
    outcomes = {}
    samples = []
    for cid in agg.order:
        r = agg.results.get(cid)
        if not r:
            continue
        outcomes[r.get("outcome", "?")] = outcomes.get(r.get("outcome", "?"), 0) + 1
        if r.get("nontrivial"):
            feats.add(json.dumps(r.get("features"), sort_keys=True, default=str))
        if r.get("sample") is not None and len(samples) < 6 and (len(samples) < 3 or cid.endswith(("7", "3"))):
            samples.append({"case": cid, "outcome": r.get("outcome"), "sample": r.get("sample")})
    if not samples:
        for cid in agg.order[:3]:
            samples.append({"case": agg.cases[cid]})
    cov = {
        "evaluations": len(agg.results),
        "distinct_nontrivial": len(feats),
        "rule": mod.RULE,
        "samples": samples,
        "outcomes": outcomes,
        "abnormal_cases": {o: [cid for cid in agg.order if (agg.results.get(cid) or {}).get("outcome") == o][:40] for o in ("crash", "hang") if outcomes.get(o)},
        "reach_counters": dict(sorted(counters.items())),
        "reach_sets": {k: len(v) for k, v in sorted(agg.sets().items())},
        "known_findings_hit": {k: len(v) for k, v in sorted(knowns.items())},
        "inconclusive_reasons": agg.inconclusive[:20],
        "notes": agg.notes[:20],
        "exhaustive": bool(getattr(mod, "EXHAUSTIVE", False)) and agg.tier == "thorough",
        "tree": build.tree_hashes(),
    }
    if hasattr(mod, "coverage_extra"):
        try:
            cov.update(mod.coverage_extra(agg))
        except Exception as e:  # evidence decoration must never break a verdict
            cov["coverage_extra_error"] = repr(e)
    ev = {
        "property_id": agg.prop,
        "tier": agg.tier,
        "seed": int(agg.seed),
        "level": mod.LEVEL,
        "coverage": cov,
        "assumptions": list(getattr(mod, "ASSUMPTIONS", [])),
        "wall_s": round(float(wall), 2),
        "violations": len(violations),
        "verdict": "violated" if violations else ("inconclusive" if agg.inconclusive else "held-on-observed"),
    }
    with open(_path(agg.prop), "w") as f:
        json.dump(ev, f, indent=1, default=str)


def write_inconclusive(prop, tier, seed, mod, reason, wall):
    ev = {
        "property_id": prop, "tier": tier, "seed": int(seed), "level": mod.LEVEL,
        "coverage": {"evaluations": 0, "distinct_nontrivial": 0, "rule": mod.RULE, "samples": [],
                     "inconclusive_reasons": [reason]},
        "assumptions": list(getattr(mod, "ASSUMPTIONS", [])),
        "wall_s": round(float(wall), 2), "violations": 0, "verdict": "inconclusive",
    }
    with open(_path(prop), "w") as f:
        json.dump(ev, f, indent=1)
