#!/bin/sh
# run /venv/bin/python against the shadow build of /repo's working tree:  ./py [-a] script.py
FL=plain
if [ "$1" = "-a" ]; then FL=asan; shift; fi
cd "$(dirname "$0")" || exit 2
exec /venv/bin/python -c "
import os,sys
sys.path.insert(0,'/verif')
from vf import build
env,_=build.env_for('$FL')
env.setdefault('VF_SCRATCH','/var/tmp/vf-adhoc')
os.execvpe('/venv/bin/python',['/venv/bin/python']+sys.argv[1:],env)
" "$@"
