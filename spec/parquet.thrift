/**
 * Licensed to the Apache Software Foundation (ASF) under one
 * or more contributor license agreements.  See the NOTICE file
 * distributed with this work for additional information
 * regarding copyright ownership.  The ASF licenses this file
 * to you under the Apache License, Version 2.0 (the
 * "License"); you may not use this file except in compliance
 * with the License.  You may obtain a copy of the License at
 *
 *     http://www.apache.org/licenses/LICENSE-2.0
 *
 * Unless required by applicable law or agreed to in writing,
 * software distributed under the License is distributed on an
 * "AS IS" BASIS, WITHOUT WARRANTIES OR CONDITIONS OF ANY
 * KIND, either express or implied.  See the License for the
 * specific language governing permissions and limitations
 * under the License.
 */

/**
 * File format description for the parquet file format
 */
namespace cpp parquet
namespace java org.apache.parquet.format

/**
 * Types supported by Parquet.  These types are intended to be used in combination
 * with the encodings to control the on disk storage format.
 * For example INT16 is not included as a type since a good encoding of INT32
 * would handle this.
 */
enum Type {
  BOOLEAN = 0;
  INT32 = 1;
  INT64 = 2;
  INT96 = 3;  // deprecated, only used by legacy implementations.
  FLOAT = 4;
  DOUBLE = 5;
  BYTE_ARRAY = 6;
  FIXED_LEN_BYTE_ARRAY = 7;
}

/**
 * DEPRECATED: Common types used by frameworks(e.g. hive, pig) using parquet.
 * ConvertedType is superseded by LogicalType.  This enum should not be extended.
 *
 * See LogicalTypes.md for conversion between ConvertedType and LogicalType.
 */
enum ConvertedType {
  /** a BYTE_ARRAY actually contains UTF8 encoded chars */
  UTF8 = 0;

  /** a map is converted as an optional field containing a repeated key/value pair */
  MAP = 1;

  /** a key/value pair is converted into a group of two fields */
  MAP_KEY_VALUE = 2;

  /** a list is converted into an optional field containing a repeated field for its
   * values */
  LIST = 3;

  /** an enum is converted into a binary field */
  ENUM = 4;

  /**
   * A decimal value.
   *
   * This may be used to annotate binary or fixed primitive types. The
   * underlying byte array stores the unscaled value encoded as two's
   * complement using big-endian byte order (the most significant byte is the
   * zeroth element). The value of the decimal is the value * 10^{-scale}.
   *
   * This must be accompanied by a (maximum) precision and a scale in the
   * SchemaElement. The precision specifies the number of digits in the decimal
   * and the scale stores the location of the decimal point. For example 1.23
   * would have precision 3 (3 total digits) and scale 2 (the decimal point is
   * 2 digits over).
   */
  DECIMAL = 5;

  /**
   * A Date
   *
   * Stored as days since Unix epoch, encoded as the INT32 physical type.
   *
   */
  DATE = 6;

  /**
   * A time
   *
   * The total number of milliseconds since midnight.  The value is stored
   * as an INT32 physical type.
   */
  TIME_MILLIS = 7;

  /**
   * A time.
   *
   * The total number of microseconds since midnight.  The value is stored as
   * an INT64 physical type.
   */
  TIME_MICROS = 8;

  /**
   * A date/time combination
   *
   * Date and time recorded as milliseconds since the Unix epoch.  Recorded as
   * a physical type of INT64.
   */
  TIMESTAMP_MILLIS = 9;

  /**
   * A date/time combination
   *
   * Date and time recorded as microseconds since the Unix epoch.  The value is
   * stored as an INT64 physical type.
   */
  TIMESTAMP_MICROS = 10;


  /**
   * An unsigned integer value.
   *
   * The number describes the maximum number of meaningful data bits in
   * the stored value. 8, 16 and 32 bit values are stored using the
   * INT32 physical type.  64 bit values are stored using the INT64
   * physical type.
   *
   */
  UINT_8 = 11;
  UINT_16 = 12;
  UINT_32 = 13;
  UINT_64 = 14;

  /**
   * A signed integer value.
   *
   * The number describes the maximum number of meaningful data bits in
   * the stored value. 8, 16 and 32 bit values are stored using the
   * INT32 physical type.  64 bit values are stored using the INT64
   * physical type.
   *
   */
  INT_8 = 15;
  INT_16 = 16;
  INT_32 = 17;
  INT_64 = 18;

  /**
   * An embedded JSON document
   *
   * A JSON document embedded within a single UTF8 column.
   */
  JSON = 19;

  /**
   * An embedded BSON document
   *
   * A BSON document embedded within a single BINARY column.
   */
  BSON = 20;

  /**
   * An interval of time
   *
   * This type annotates data stored as a FIXED_LEN_BYTE_ARRAY of length 12
   * This data is composed of three separate little endian unsigned
   * integers.  Each stores a component of a duration of time.  The first
   * integer identifies the number of months associated with the duration,
   * the second identifies the number of days associated with the duration
   * and the third identifies the number of milliseconds associated with
   * the provided duration.  This duration of time is independent of any
   * particular timezone or date.
   */
  INTERVAL = 21;
}

/**
 * Representation of Schemas
 */
enum FieldRepetitionType {
  /** This field is required (can not be null) and each record has exactly 1 value. */
  REQUIRED = 0;

  /** The field is optional (can be null) and each record has 0 or 1 values. */
  OPTIONAL = 1;

  /** The field is repeated and can contain 0 or more values */
  REPEATED = 2;
}

/**
 * Statistics per row group and per page
 * All fields are optional.
 */
struct Statistics {
   /**
    * DEPRECATED: min and max value of the column. Use min_value and max_value.
    *
    * Values are encoded using PLAIN encoding, except that variable-length byte
    * arrays do not include a length prefix.
    *
    * These fields encode min and max values determined by signed comparison
    * only. New files should use the correct order for a column's logical type
    * and store the values in the min_value and max_value fields.
    *
    * To support older readers, these may be set when the column order is
    * signed.
    */
   1: optional binary max;
   2: optional binary min;
   /** count of null value in the column */
   3: optional i64 null_count;
   /** count of distinct values occurring */
   4: optional i64 distinct_count;
   /**
    * Min and max values for the column, determined by its ColumnOrder.
    *
    * Values are encoded using PLAIN encoding, except that variable-length byte
    * arrays do not include a length prefix.
    */
   5: optional binary max_value;
   6: optional binary min_value;
}

/** Empty structs to use as logical type annotations */
struct StringType {}  // allowed for BINARY, must be encoded with UTF-8
struct UUIDType {}    // allowed for FIXED[16], must encoded raw UUID bytes
struct MapType {}     // see LogicalTypes.md
struct ListType {}    // see LogicalTypes.md
struct EnumType {}    // allowed for BINARY, must be encoded with UTF-8
struct DateType {}    // allowed for INT32

/**
 * Logical type to annotate a column that is always null.
 *
 * Sometimes when discovering the schema of existing data, values are always
 * null and the physical type can't be determined. This annotation signals
 * the case where the physical type was guessed from all null values.
 */
struct NullType {}    // allowed for any physical type, only null values stored

/**
 * Decimal logical type annotation
 *
 * To maintain forward-compatibility in v1, implementations using this logical
 * type must also set scale and precision on the annotated SchemaElement.
 *
 * Allowed for physical types: INT32, INT64, FIXED, and BINARY
 */
struct DecimalType {
  1: required i32 scale
  2: required i32 precision
}

/** Time units for logical types */
struct MilliSeconds {}
struct MicroSeconds {}
struct NanoSeconds {}
union TimeUnit {
  1: MilliSeconds MILLIS
  2: MicroSeconds MICROS
  3: NanoSeconds NANOS
}

/**
 * Timestamp logical type annotation
 *
 * Allowed for physical types: INT64
 */
struct TimestampType {
  1: required bool isAdjustedToUTC
  2: required TimeUnit unit
}

/**
 * Time logical type annotation
 *
 * Allowed for physical types: INT32 (millis), INT64 (micros, nanos)
 */
struct TimeType {
  1: required bool isAdjustedToUTC
  2: required TimeUnit unit
}

/**
 * Integer logical type annotation
 *
 * bitWidth must be 8, 16, 32, or 64.
 *
 * Allowed for physical types: INT32, INT64
 */
struct IntType {
  1: required i8 bitWidth
  2: required bool isSigned
}

/**
 * Embedded JSON logical type annotation
 *
 * Allowed for physical types: BINARY
 */
struct JsonType {
}

/**
 * Embedded BSON logical type annotation
 *
 * Allowed for physical types: BINARY
 */
struct BsonType {
}

/**
 * LogicalType annotations to replace ConvertedType.
 *
 * To maintain compatibility, implementations using LogicalType for a
 * SchemaElement must also set the corresponding ConvertedType (if any)
 * from the following table.
 */
union LogicalType {
  1:  StringType STRING       // use ConvertedType UTF8
  2:  MapType MAP             // use ConvertedType MAP
  3:  ListType LIST           // use ConvertedType LIST
  4:  EnumType ENUM           // use ConvertedType ENUM
  5:  DecimalType DECIMAL     // use ConvertedType DECIMAL + SchemaElement.{scale, precision}
  6:  DateType DATE           // use ConvertedType DATE

  // use ConvertedType TIME_MICROS for TIME(isAdjustedToUTC = *, unit = MICROS)
  // use ConvertedType TIME_MILLIS for TIME(isAdjustedToUTC = *, unit = MILLIS)
  7:  TimeType TIME

  // use ConvertedType TIMESTAMP_MICROS for TIMESTAMP(isAdjustedToUTC = *, unit = MICROS)
  // use ConvertedType TIMESTAMP_MILLIS for TIMESTAMP(isAdjustedToUTC = *, unit = MILLIS)
  8:  TimestampType TIMESTAMP

  // 9: reserved for INTERVAL
  10: IntType INTEGER         // use ConvertedType INT_* or UINT_*
  11: NullType UNKNOWN        // no compatible ConvertedType
  12: JsonType JSON           // use ConvertedType JSON
  13: BsonType BSON           // use ConvertedType BSON
  14: UUIDType UUID           // no compatible ConvertedType
}

/**
 * Represents a element inside a schema definition.
 *  - if it is a group (inner node) then type is undefined and num_children is defined
 *  - if it is a primitive type (leaf) then type is defined and num_children is undefined
 * the nodes are listed in depth first traversal order.
 */
struct SchemaElement {
  /** Data type for this field. Not set if the current element is a non-leaf node */
  1: optional Type type;

  /** If type is FIXED_LEN_BYTE_ARRAY, this is the byte length of the vales.
   * Otherwise, if specified, this is the maximum bit length to store any of the values.
   * (e.g. a low cardinality INT col could have this set to 3).  Note that this is
   * in the schema, and therefore fixed for the entire file.
   */
  2: optional i32 type_length;

  /** repetition of the field. The root of the schema does not have a repetition_type.
   * All other nodes must have one */
  3: optional FieldRepetitionType repetition_type;

  /** Name of the field in the schema */
  4: required string name;

  /** Nested fields.  Since thrift does not support nested fields,
   * the nesting is flattened to a single list by a depth-first traversal.
   * The children count is used to construct the nested relationship.
   * This field is not set when the element is a primitive type
   */
  5: optional i32 num_children;

  /**
   * DEPRECATED: When the schema is the result of a conversion from another model.
   * Used to record the original type to help with cross conversion.
   *
   * This is superseded by logicalType.
   */
  6: optional ConvertedType converted_type;

  /**
   * DEPRECATED: Used when this column contains decimal data.
   * See the DECIMAL converted type for more details.
   *
   * This is superseded by using the DecimalType annotation in logicalType.
   */
  7: optional i32 scale
  8: optional i32 precision

  /** When the original schema supports field ids, this will save the
   * original field id in the parquet schema
   */
  9: optional i32 field_id;

  /**
   * The logical type of this SchemaElement
   *
   * LogicalType replaces ConvertedType, but ConvertedType is still required
   * for some logical types to ensure forward-compatibility in format v1.
   */
  10: optional LogicalType logicalType
}

/**
 * Encodings supported by Parquet.  Not all encodings are valid for all types.  These
 * enums are also used to specify the encoding of definition and repetition levels.
 * See the accompanying doc for the details of the more complicated encodings.
 */
enum Encoding {
  /** Default encoding.
   * BOOLEAN - 1 bit per value. 0 is false; 1 is true.
   * INT32 - 4 bytes per value.  Stored as little-endian.
   * INT64 - 8 bytes per value.  Stored as little-endian.
   * FLOAT - 4 bytes per value.  IEEE. Stored as little-endian.
   * DOUBLE - 8 bytes per value.  IEEE. Stored as little-endian.
   * BYTE_ARRAY - 4 byte length stored as little endian, followed by bytes.
   * FIXED_LEN_BYTE_ARRAY - Just the bytes.
   */
  PLAIN = 0;

  /** Group VarInt encoding for INT32/INT64.
   * This encoding is deprecated. It was never used
   */
  //  GROUP_VAR_INT = 1;

  /**
   * Deprecated: Dictionary encoding. The values in the dictionary are encoded in the
   * plain type.
   * in a data page use RLE_DICTIONARY instead.
   * in a Dictionary page use PLAIN instead
   */
  PLAIN_DICTIONARY = 2;

  /** Group packed run length encoding. Usable for definition/repetition levels
   * encoding and Booleans (on one bit: 0 is false; 1 is true.)
   */
  RLE = 3;

  /** Bit packed encoding.  This can only be used if the data has a known max
   * width.  Usable for definition/repetition levels encoding.
   */
  BIT_PACKED = 4;

  /** Delta encoding for integers. This can be used for int columns and works best
   * on sorted data
   */
  DELTA_BINARY_PACKED = 5;

  /** Encoding for byte arrays to separate the length values and the data. The lengths
   * are encoded using DELTA_BINARY_PACKED
   */
  DELTA_LENGTH_BYTE_ARRAY = 6;

  /** Incremental-encoded byte array. Prefix lengths are encoded using DELTA_BINARY_PACKED.
   * Suffixes are stored as delta length byte arrays.
   */
  DELTA_BYTE_ARRAY = 7;

  /** Dictionary encoding: the ids are encoded using the RLE encoding
   */
  RLE_DICTIONARY = 8;

  /** Encoding for floating-point data.
      K byte-streams are created where K is the size in bytes of the data type.
      The individual bytes of an FP value are scattered to the corresponding stream and
      the streams are concatenated.
      This itself does not reduce the size of the data but can lead to better compression
      afterwards.
   */
  BYTE_STREAM_SPLIT = 9;
}

/**
 * Supported compression algorithms.
 *
 * Codecs added in format version X.Y can be read by readers based on X.Y and later.
 * Codec support may vary between readers based on the format version and
 * libraries available at runtime.
 *
 * See Compression.md for a detailed specification of these algorithms.
 */
enum CompressionCodec {
  UNCOMPRESSED = 0;
  SNAPPY = 1;
  GZIP = 2;
  LZO = 3;
  BROTLI = 4;  // Added in 2.4
  LZ4 = 5;     // DEPRECATED (Added in 2.4)
  ZSTD = 6;    // Added in 2.4
  LZ4_RAW = 7; // Added in 2.9
}

enum PageType {
  DATA_PAGE = 0;
  INDEX_PAGE = 1;
  DICTIONARY_PAGE = 2;
  DATA_PAGE_V2 = 3;
}

/**
 * Enum to annotate whether lists of min/max elements inside ColumnIndex
 * are ordered and if so, in which direction.
 */
enum BoundaryOrder {
  UNORDERED = 0;
  ASCENDING = 1;
  DESCENDING = 2;
}

/** Data page header */
struct DataPageHeader {
  /** Number of values, including NULLs, in this data page. **/
  1: required i32 num_values

  /** Encoding used for this data page **/
  2: required Encoding encoding

  /** Encoding used for definition levels **/
  3: required Encoding definition_level_encoding;

  /** Encoding used for repetition levels **/
  4: required Encoding repetition_level_encoding;

  /** Optional statistics for the data in this page**/
  5: optional Statistics statistics;
}

struct IndexPageHeader {
  // TODO
}

/**
 * The dictionary page must be placed at the first position of the column chunk
 * if it is partly or completely dictionary encoded. At most one dictionary page
 * can be placed in a column chunk.
 **/
struct DictionaryPageHeader {
  /** Number of values in the dictionary **/
  1: required i32 num_values;

  /** Encoding using this dictionary page **/
  2: required Encoding encoding

  /** If true, the entries in the dictionary are sorted in ascending order **/
  3: optional bool is_sorted;
}

/**
 * New page format allowing reading levels without decompressing the data
 * Repetition and definition levels are uncompressed
 * The remaining section containing the data is compressed if is_compressed is true
 **/
struct DataPageHeaderV2 {
  /** Number of values, including NULLs, in this data page. **/
  1: required i32 num_values
  /** Number of NULL values, in this data page.
      Number of non-null = num_values - num_nulls which is also the number of values in the data section **/
  2: required i32 num_nulls
  /** Number of rows in this data page. which means pages change on record boundaries (r = 0) **/
  3: required i32 num_rows
  /** Encoding used for data in this page **/
  4: required Encoding encoding

  // repetition levels and definition levels are always using RLE (without size in it)

  /** length of the definition levels */
  5: required i32 definition_levels_byte_length;
  /** length of the repetition levels */
  6: required i32 repetition_levels_byte_length;

  /**  whether the values are compressed.
  Which means the section of the page between
  definition_levels_byte_length + repetition_levels_byte_length + 1 and compressed_page_size (included)
  is compressed with the compression_codec.
  If missing it is considered compressed */
  7: optional bool is_compressed = 1;

  /** optional statistics for the data in this page **/
  8: optional Statistics statistics;
}

/** Block-based algorithm type annotation. **/
struct SplitBlockAlgorithm {}
/** The algorithm used in Bloom filter. **/
union BloomFilterAlgorithm {
  /** Block-based Bloom filter. **/
  1: SplitBlockAlgorithm BLOCK;
}

/** Hash strategy type annotation. xxHash is an extremely fast non-cryptographic hash
 * algorithm. It uses 64 bits version of xxHash. 
 **/
struct XxHash {}

/** 
 * The hash function used in Bloom filter. This function takes the hash of a column value
 * using plain encoding.
 **/
union BloomFilterHash {
  /** xxHash Strategy. **/
  1: XxHash XXHASH;
}

/**
 * The compression used in the Bloom filter.
 **/
struct Uncompressed {}
union BloomFilterCompression {
  1: Uncompressed UNCOMPRESSED;
}

/**
  * Bloom filter header is stored at beginning of Bloom filter data of each column
  * and followed by its bitset.
  **/
struct BloomFilterHeader {
  /** The size of bitset in bytes **/
  1: required i32 numBytes;
  /** The algorithm for setting bits. **/
  2: required BloomFilterAlgorithm algorithm;
  /** The hash function used for Bloom filter. **/
  3: required BloomFilterHash hash;
  /** The compression used in the Bloom filter **/
  4: required BloomFilterCompression compression;
}

struct PageHeader {
  /** the type of the page: indicates which of the *_header fields is set **/
  1: required PageType type

  /** Uncompressed page size in bytes (not including this header) **/
  2: required i32 uncompressed_page_size

  /** Compressed (and potentially encrypted) page size in bytes, not including this header **/
  3: required i32 compressed_page_size

  /** The 32bit CRC for the page, to be be calculated as follows:
   * - Using the standard CRC32 algorithm
   * - On the data only, i.e. this header should not be included. 'Data'
   *   hereby refers to the concatenation of the repetition levels, the
   *   definition levels and the column value, in this exact order.
   * - On the encoded versions of the repetition levels, definition levels and
   *   column values
   * - On the compressed versions of the repetition levels, definition levels
   *   and column values where possible;
   *   - For v1 data pages, the repetition levels, definition levels and column
   *     values are always compressed together. If a compression scheme is
   *     specified, the CRC shall be calculated on the compressed version of
   *     this concatenation. If no compression scheme is specified, the CRC
   *     shall be calculated on the uncompressed version of this concatenation.
   *   - For v2 data pages, the repetition levels and definition levels are
   *     handled separately from the data and are never compressed (only
   *     encoded). If a compression scheme is specified, the CRC shall be
   *     calculated on the concatenation of the uncompressed repetition levels,
   *     uncompressed definition levels and the compressed column values.
   *     If no compression scheme is specified, the CRC shall be calculated on
   *     the uncompressed concatenation.
   * - In encrypted columns, CRC is calculated after page encryption; the
   *   encryption itself is performed after page compression (if compressed)
   * If enabled, this allows for disabling checksumming in HDFS if only a few
   * pages need to be read.
   **/
  4: optional i32 crc

  // Headers for page specific data.  One only will be set.
  5: optional DataPageHeader data_page_header;
  6: optional IndexPageHeader index_page_header;
  7: optional DictionaryPageHeader dictionary_page_header;
  8: optional DataPageHeaderV2 data_page_header_v2;
}

/**
 * Wrapper struct to store key values
 */
 struct KeyValue {
  1: required string key
  2: optional string value
}

/**
 * Wrapper struct to specify sort order
 */
struct SortingColumn {
  /** The column index (in this row group) **/
  1: required i32 column_idx

  /** If true, indicates this column is sorted in descending order. **/
  2: required bool descending

  /** If true, nulls will come before non-null values, otherwise,
   * nulls go at the end. */
  3: required bool nulls_first
}

/**
 * statistics of a given page type and encoding
 */
struct PageEncodingStats {

  /** the page type (data/dic/...) **/
  1: required PageType page_type;

  /** encoding of the page **/
  2: required Encoding encoding;

  /** number of pages of this type with this encoding **/
  3: required i32 count;

}

/**
 * Description for column metadata
 */
struct ColumnMetaData {
  /** Type of this column **/
  1: required Type type

  /** Set of all encodings used for this column. The purpose is to validate
   * whether we can decode those pages. **/
  2: required list<Encoding> encodings

  /** Path in schema **/
  3: required list<string> path_in_schema

  /** Compression codec **/
  4: required CompressionCodec codec

  /** Number of values in this column **/
  5: required i64 num_values

  /** total byte size of all uncompressed pages in this column chunk (including the headers) **/
  6: required i64 total_uncompressed_size

  /** total byte size of all compressed, and potentially encrypted, pages 
   *  in this column chunk (including the headers) **/
  7: required i64 total_compressed_size

  /** Optional key/value metadata **/
  8: optional list<KeyValue> key_value_metadata

  /** Byte offset from beginning of file to first data page **/
  9: required i64 data_page_offset

  /** Byte offset from beginning of file to root index page **/
  10: optional i64 index_page_offset

  /** Byte offset from the beginning of file to first (only) dictionary page **/
  11: optional i64 dictionary_page_offset

  /** optional statistics for this column chunk */
  12: optional Statistics statistics;

  /** Set of all encodings used for pages in this column chunk.
   * This information can be used to determine if all data pages are
   * dictionary encoded for example **/
  13: optional list<PageEncodingStats> encoding_stats;

  /** Byte offset from beginning of file to Bloom filter data. **/
  14: optional i64 bloom_filter_offset;
}

struct EncryptionWithFooterKey {
}

struct EncryptionWithColumnKey {
  /** Column path in schema **/
  1: required list<string> path_in_schema
  
  /** Retrieval metadata of column encryption key **/
  2: optional binary key_metadata
}

union ColumnCryptoMetaData {
  1: EncryptionWithFooterKey ENCRYPTION_WITH_FOOTER_KEY
  2: EncryptionWithColumnKey ENCRYPTION_WITH_COLUMN_KEY
}

struct ColumnChunk {
  /** File where column data is stored.  If not set, assumed to be same file as
    * metadata.  This path is relative to the current file.
    **/
  1: optional string file_path

  /** Byte offset in file_path to the ColumnMetaData **/
  2: required i64 file_offset

  /** Column metadata for this chunk. This is the same content as what is at
   * file_path/file_offset.  Having it here has it replicated in the file
   * metadata.
   **/
  3: optional ColumnMetaData meta_data

  /** File offset of ColumnChunk's OffsetIndex **/
  4: optional i64 offset_index_offset

  /** Size of ColumnChunk's OffsetIndex, in bytes **/
  5: optional i32 offset_index_length

  /** File offset of ColumnChunk's ColumnIndex **/
  6: optional i64 column_index_offset

  /** Size of ColumnChunk's ColumnIndex, in bytes **/
  7: optional i32 column_index_length

  /** Crypto metadata of encrypted columns **/
  8: optional ColumnCryptoMetaData crypto_metadata
  
  /** Encrypted column metadata for this chunk **/
  9: optional binary encrypted_column_metadata
}

struct RowGroup {
  /** Metadata for each column chunk in this row group.
   * This list must have the same order as the SchemaElement list in FileMetaData.
   **/
  1: required list<ColumnChunk> columns

  /** Total byte size of all the uncompressed column data in this row group **/
  2: required i64 total_byte_size

  /** Number of rows in this row group **/
  3: required i64 num_rows

  /** If set, specifies a sort ordering of the rows in this RowGroup.
   * The sorting columns can be a subset of all the columns.
   */
  4: optional list<SortingColumn> sorting_columns

  /** Byte offset from beginning of file to first page (data or dictionary)
   * in this row group **/
  5: optional i64 file_offset

  /** Total byte size of all compressed (and potentially encrypted) column data 
   *  in this row group **/
  6: optional i64 total_compressed_size
  
  /** Row group ordinal in the file **/
  7: optional i16 ordinal
}

/** Empty struct to signal the order defined by the physical or logical type */
struct TypeDefinedOrder {}

/**
 * Union to specify the order used for the min_value and max_value fields for a
 * column. This union takes the role of an enhanced enum that allows rich
 * elements (which will be needed for a collation-based ordering in the future).
 *
 * Possible values are:
 * * TypeDefinedOrder - the column uses the order defined by its logical or
 *                      physical type (if there is no logical type).
 *
 * If the reader does not support the value of this union, min and max stats
 * for this column should be ignored.
 */
union ColumnOrder {

  /**
   * The sort orders for logical types are:
   *   UTF8 - unsigned byte-wise comparison
   *   INT8 - signed comparison
   *   INT16 - signed comparison
   *   INT32 - signed comparison
   *   INT64 - signed comparison
   *   UINT8 - unsigned comparison
   *   UINT16 - unsigned comparison
   *   UINT32 - unsigned comparison
   *   UINT64 - unsigned comparison
   *   DECIMAL - signed comparison of the represented value
   *   DATE - signed comparison
   *   TIME_MILLIS - signed comparison
   *   TIME_MICROS - signed comparison
   *   TIMESTAMP_MILLIS - signed comparison
   *   TIMESTAMP_MICROS - signed comparison
   *   INTERVAL - unsigned comparison
   *   JSON - unsigned byte-wise comparison
   *   BSON - unsigned byte-wise comparison
   *   ENUM - unsigned byte-wise comparison
   *   LIST - undefined
   *   MAP - undefined
   *
   * In the absence of logical types, the sort order is determined by the physical type:
   *   BOOLEAN - false, true
   *   INT32 - signed comparison
   *   INT64 - signed comparison
   *   INT96 (only used for legacy timestamps) - undefined
   *   FLOAT - signed comparison of the represented value (*)
   *   DOUBLE - signed comparison of the represented value (*)
   *   BYTE_ARRAY - unsigned byte-wise comparison
   *   FIXED_LEN_BYTE_ARRAY - unsigned byte-wise comparison
   *
   * (*) Because the sorting order is not specified properly for floating
   *     point values (relations vs. total ordering) the following
   *     compatibility rules should be applied when reading statistics:
   *     - If the min is a NaN, it should be ignored.
   *     - If the max is a NaN, it should be ignored.
   *     - If the min is +0, the row group may contain -0 values as well.
   *     - If the max is -0, the row group may contain +0 values as well.
   *     - When looking for NaN values, min and max should be ignored.
   */
  1: TypeDefinedOrder TYPE_ORDER;
}

struct PageLocation {
  /** Offset of the page in the file **/
  1: required i64 offset

  /**
   * Size of the page, including header. Sum of compressed_page_size and header
   * length
   */
  2: required i32 compressed_page_size

  /**
   * Index within the RowGroup of the first row of the page; this means pages
   * change on record boundaries (r = 0).
   */
  3: required i64 first_row_index
}

struct OffsetIndex {
  /**
   * PageLocations, ordered by increasing PageLocation.offset. It is required
   * that page_locations[i].first_row_index < page_locations[i+1].first_row_index.
   */
  1: required list<PageLocation> page_locations
}

/**
 * Description for ColumnIndex.
 * Each <array-field>[i] refers to the page at OffsetIndex.page_locations[i]
 */
struct ColumnIndex {
  /**
   * A list of Boolean values to determine the validity of the corresponding
   * min and max values. If true, a page contains only null values, and writers
   * have to set the corresponding entries in min_values and max_values to
   * byte[0], so that all lists have the same length. If false, the
   * corresponding entries in min_values and max_values must be valid.
   */
  1: required list<bool> null_pages

  /**
   * Two lists containing lower and upper bounds for the values of each page
   * determined by the ColumnOrder of the column. These may be the actual
   * minimum and maximum values found on a page, but can also be (more compact)
   * values that do not exist on a page. For example, instead of storing ""Blart
   * Versenwald III", a writer may set min_values[i]="B", max_values[i]="C".
   * Such more compact values must still be valid values within the column's
   * logical type. Readers must make sure that list entries are populated before
   * using them by inspecting null_pages.
   */
  2: required list<binary> min_values
  3: required list<binary> max_values

  /**
   * Stores whether both min_values and max_values are orderd and if so, in
   * which direction. This allows readers to perform binary searches in both
   * lists. Readers cannot assume that max_values[i] <= min_values[i+1], even
   * if the lists are ordered.
   */
  4: required BoundaryOrder boundary_order

  /** A list containing the number of null values for each page **/
  5: optional list<i64> null_counts
}

struct AesGcmV1 {
  /** AAD prefix **/
  1: optional binary aad_prefix

  /** Unique file identifier part of AAD suffix **/
  2: optional binary aad_file_unique
  
  /** In files encrypted with AAD prefix without storing it,
   * readers must supply the prefix **/
  3: optional bool supply_aad_prefix
}

struct AesGcmCtrV1 {
  /** AAD prefix **/
  1: optional binary aad_prefix

  /** Unique file identifier part of AAD suffix **/
  2: optional binary aad_file_unique
  
  /** In files encrypted with AAD prefix without storing it,
   * readers must supply the prefix **/
  3: optional bool supply_aad_prefix
}

union EncryptionAlgorithm {
  1: AesGcmV1 AES_GCM_V1
  2: AesGcmCtrV1 AES_GCM_CTR_V1
}

/**
 * Description for file metadata
 */
struct FileMetaData {
  /** Version of this file **/
  1: required i32 version

  /** Parquet schema for this file.  This schema contains metadata for all the columns.
   * The schema is represented as a tree with a single root.  The nodes of the tree
   * are flattened to a list by doing a depth-first traversal.
   * The column metadata contains the path in the schema for that column which can be
   * used to map columns to nodes in the schema.
   * The first element is the root **/
  2: required list<SchemaElement> schema;

  /** Number of rows in this file **/
  3: required i64 num_rows

  /** Row groups in this file **/
  4: required list<RowGroup> row_groups

  /** Optional key/value metadata **/
  5: optional list<KeyValue> key_value_metadata

  /** String for application that wrote this file.  This should be in the format
   * <Application> version <App Version> (build <App Build Hash>).
   * e.g. impala version 1.0 (build 6cf94d29b2b7115df4de2c06e2ab4326d721eb55)
   **/
  6: optional string created_by

  /**
   * Sort order used for the min_value and max_value fields in the Statistics
   * objects and the min_values and max_values fields in the ColumnIndex
   * objects of each column in this file. Sort orders are listed in the order
   * matching the columns in the schema. The indexes are not necessary the same
   * though, because only leaf nodes of the schema are represented in the list
   * of sort orders.
   *
   * Without column_orders, the meaning of the min_value and max_value fields
   * in the Statistics object and the ColumnIndex object is undefined. To ensure
   * well-defined behaviour, if these fields are written to a Parquet file,
   * column_orders must be written as well.
   *
   * The obsolete min and max fields in the Statistics object are always sorted
   * by signed comparison regardless of column_orders.
   */
  7: optional list<ColumnOrder> column_orders;

  /** 
   * Encryption algorithm. This field is set only in encrypted files
   * with plaintext footer. Files with encrypted footer store algorithm id
   * in FileCryptoMetaData structure.
   */
  8: optional EncryptionAlgorithm encryption_algorithm

  /** 
   * Retrieval metadata of key used for signing the footer. 
   * Used only in encrypted files with plaintext footer. 
   */ 
  9: optional binary footer_signing_key_metadata
}

/** Crypto metadata for files with encrypted footer **/
struct FileCryptoMetaData {
  /** 
   * Encryption algorithm. This field is only used for files
   * with encrypted footer. Files with plaintext footer store algorithm id
   * inside footer (FileMetaData structure).
   */
  1: required EncryptionAlgorithm encryption_algorithm
    
  /** Retrieval metadata of key used for encryption of footer, 
   *  and (possibly) columns **/
  2: optional binary key_metadata
}
