"""Re-run every seeded change under /verif/seeded against the check(s) of its property and record the outcome in its meta.json.

    /venv/bin/python tools/seeded_all.py [dir-name-prefix ...]     (tier: env SEEDED_TIER, default quick)

A seeded change is applied to /repo (git apply of patch.diff; or `patch` of cencoding.c.diff / speedups.c.diff onto the untracked
generated C), the check is run, and the change is undone straight afterwards.  /repo must be clean.  Evidence files written by these
runs are discarded (evidence under /verif/evidence must come from the unchanged tree).
"""
import json
import os
import shutil
import subprocess
import sys
import time

ROOT = os.path.dirname(os.path.dirname(os.path.abspath(__file__)))
SEEDED = os.path.join(ROOT, "seeded")
REPO = os.environ.get("VF_REPO", "/repo")
TIER = os.environ.get("SEEDED_TIER", "quick")


def sh(cmd, **kw):
    return subprocess.run(cmd, shell=True, capture_output=True, text=True, **kw)


def clean():
    return sh("git -C %s diff --quiet" % REPO).returncode == 0


def run_one(name):
    d = os.path.join(SEEDED, name)
    mp = os.path.join(d, "meta.json")
    meta = json.load(open(mp)) if os.path.exists(mp) else {}
    prop = meta.get("property") or name.split("-")[0]
    checks = meta.get("checks") or [prop]
    cdiffs = [f for f in os.listdir(d) if f.endswith(".c.diff")]
    saved = {}
    if not clean():
        raise SystemExit("/repo has uncommitted changes")
    try:
        if os.path.exists(os.path.join(d, "patch.diff")) and os.path.getsize(os.path.join(d, "patch.diff")):
            r = sh("git -C %s apply %s" % (REPO, os.path.join(d, "patch.diff")))
            if r.returncode:
                return {"applied": False, "error": r.stderr[-300:]}
        for cd in cdiffs:
            target = os.path.join(REPO, "fastparquet", cd[:-5])
            saved[target] = target + ".seeded-orig"
            shutil.copy2(target, saved[target])
            r = sh("patch -s %s %s" % (target, os.path.join(d, cd)))
            if r.returncode:
                return {"applied": False, "error": (r.stdout + r.stderr)[-300:]}
        runs = []
        for c in checks:
            t0 = time.time()
            r = sh("cd %s && ./check %s %s" % (ROOT, c, TIER))
            out = r.stdout + r.stderr
            viol = [l for l in out.splitlines() if l.startswith("VIOLATION")]
            firsts = [l.strip()[:300] for l in out.splitlines() if l.startswith("  case=")][:2]
            runs.append({"cmd": "./check %s %s" % (c, TIER), "exit": r.returncode, "violation_lines": len(viol), "first": firsts,
                         "last_line": out.strip().splitlines()[-1][:200] if out.strip() else "", "seconds": round(time.time() - t0, 1)})
        return {"applied": True, "runs": runs, "caught": any(x["exit"] == 1 and x["violation_lines"] for x in runs)}
    finally:
        sh("git -C %s checkout -- ." % REPO)
        for target, bak in saved.items():
            shutil.copy2(bak, target)
            os.remove(bak)
        sh("git -C %s checkout -- evidence" % ROOT)
        sh("find %s/replays -name '*.json' -newermt '-30 minutes' -delete" % ROOT) if os.environ.get("SEEDED_PURGE_REPLAYS") else None


def main():
    names = sorted(n for n in os.listdir(SEEDED) if os.path.isdir(os.path.join(SEEDED, n)))
    if len(sys.argv) > 1:
        names = [n for n in names if n.startswith(tuple(sys.argv[1:]))]
    head = sh("git -C %s rev-parse --short HEAD" % REPO).stdout.strip()
    for n in names:
        res = run_one(n)
        mp = os.path.join(SEEDED, n, "meta.json")
        meta = json.load(open(mp)) if os.path.exists(mp) else {"property": n.split("-")[0]}
        meta.setdefault("checks", [meta["property"]])
        meta["last_run"] = dict(res, repo_head=head, tier=TIER)
        json.dump(meta, open(mp, "w"), indent=1)
        print(n, "caught" if res.get("caught") else "NOT CAUGHT", json.dumps(res.get("runs") or res)[:300])


if __name__ == "__main__":
    main()
