#!/bin/sh
# tools/harvest.sh <wt-dir> <prop> <slug> : copy a sub-agent's mutant (diff + demo) into /verif/seeded/<prop>-<slug>/ and drop the worktree
set -e
WT="$1"; P="$2"; S="$3"
D=/verif/seeded/$P-$S
mkdir -p "$D"
git -C "$WT" diff > "$D/patch.diff"
cp "$WT"/demo_*.py "$D/" 2>/dev/null || true
git -C /repo worktree remove --force "$WT"
echo "$D"; wc -l "$D/patch.diff"
