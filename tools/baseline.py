"""Run the repository's pinned suite (hooks off) and compare with /root/.vp/BASELINE.json stable_pass."""
import json, subprocess, sys, tempfile, os, xml.etree.ElementTree as ET
repo = os.environ.get("VF_REPO", "/repo")
base = json.load(open("/root/.vp/BASELINE.json"))
fd, path = tempfile.mkstemp(suffix=".xml", dir="/var/tmp"); os.close(fd)
cmd = ["/venv/bin/python", "-m", "pytest", "-ra", "-q", "-p", "no:cacheprovider", "--timeout=900",
       "--continue-on-collection-errors", "--junitxml=" + path]
env = dict(os.environ); env.pop("FASTPARQUET_VERIF", None)
p = subprocess.run(cmd, cwd=repo, env=env, stdout=subprocess.PIPE, stderr=subprocess.STDOUT)
passed = set()
for tc in ET.parse(path).getroot().iter("testcase"):
    if not any(ch.tag in ("failure", "error", "skipped") for ch in tc):
        passed.add(tc.get("classname") + "::" + tc.get("name"))
os.unlink(path)
missing = [t for t in base["stable_pass"] if t not in passed]
print("passed=%d stable=%d missing=%d" % (len(passed), len(base["stable_pass"]), len(missing)))
for t in missing: print("  MISSING", t)
sys.exit(1 if missing else 0)
