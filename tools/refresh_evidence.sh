#!/bin/sh
# tools/refresh_evidence.sh [tier] : run every registered check on the unchanged /repo and leave the evidence files it writes in place
T="${1:-quick}"
cd "$(dirname "$0")/.." || exit 2
git -C /repo diff --quiet || { echo "/repo has uncommitted changes"; exit 2; }
for p in $(/venv/bin/python -c "import json;print(' '.join(c['property_id'] for c in json.load(open('MANIFEST.json'))['checks']))"); do
  ./check $p $T > /var/tmp/refresh-$p.out 2>&1; rc=$?
  echo "$p rc=$rc $(tail -1 /var/tmp/refresh-$p.out | cut -c1-160)"
done
