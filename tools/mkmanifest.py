"""Regenerate MANIFEST.json from the property drivers that exist (python3 tools/mkmanifest.py)."""
import importlib, json, os, sys
sys.path.insert(0, os.path.dirname(os.path.dirname(os.path.abspath(__file__))))
ROOT = os.path.dirname(os.path.dirname(os.path.abspath(__file__)))
props = [json.loads(l)["id"] for l in open(os.path.join(ROOT, "properties.jsonl"))]
FIXES = [l.strip() for l in open(os.path.join(ROOT, "tools", "fix_commits.txt")) if l.strip()] if os.path.exists(os.path.join(ROOT, "tools", "fix_commits.txt")) else []
checks, na = [], []
for pid in props:
    path = os.path.join(ROOT, "vf", "props", pid.lower() + ".py")
    if not os.path.exists(path):
        na.append({"property_id": pid, "reason": "check not built yet (work in progress; the design in DESIGN.md section 5 claims it)"})
        continue
    src = open(path).read()
    ns = {}
    # read the constant header of the driver without importing heavy deps
    import ast
    tree = ast.parse(src)
    for node in tree.body:
        if isinstance(node, ast.Assign) and len(node.targets) == 1 and isinstance(node.targets[0], ast.Name):
            if node.targets[0].id in ("ID", "LEVEL", "TECHNIQUE", "LEVEL_TEXT", "LEVEL_NOTE", "RULE"):
                ns[node.targets[0].id] = ast.literal_eval(node.value)
    checks.append({
        "property_id": pid,
        "quick_cmd": "./check %s quick" % pid,
        "thorough_cmd": "./check %s thorough" % pid,
        "evidence_file": "/verif/evidence/%s.json" % pid,
        "replay_cmd_template": "./check %s --replay {path}" % pid,
        "engine": "vf",
        "level_claimed": {"category": ns.get("LEVEL", "exploration"),
                          "text": ns.get("LEVEL_TEXT", "held on the executions explored: " + ns.get("RULE", "")),
                          "design_ref": "DESIGN.md 5/%s" % pid},
        "level_note": ns.get("LEVEL_NOTE", "trusted base: CPython, numpy, pandas, cramjam, the harness's own oracle code; nothing is proved beyond the executions observed"),
        "technique": ns.get("TECHNIQUE", "runtime monitoring"),
    })
man = {
    "version": 1,
    "setup_cmd": "/venv/bin/python -m vf.build plain asan",
    "hooks": {"guard": "FASTPARQUET_VERIF", "enable": "none needed: all monitors attach from the harness (module-attribute wrappers, audit hooks, sys.monitoring, open_with/mkdirs seams, sanitizer builds of the unchanged C)",
              "baseline_off_cmd": "cd /repo && /venv/bin/python -m pytest -ra -q -p no:cacheprovider --timeout=900 --continue-on-collection-errors",
              "source_commits": [], "add_only": True},
    "engines": [{"name": "vf", "path": "/verif/vf", "serves_properties": [c["property_id"] for c in checks],
                 "kind_free_text": "runtime monitoring: generated workloads executed against a shadow build of /repo's working tree in journalled worker subprocesses; oracles = input frames, independent spec-level Parquet implementation (vf/ref), sequential models, audit-hook event logs, ASan/UBSan"}],
    "checks": checks,
    "not_applicable": na,
    "notes": "fix: commits in /repo (genuine defects repaired): " + "; ".join(FIXES),
}
json.dump(man, open(os.path.join(ROOT, "MANIFEST.json"), "w"), indent=1)
print("checks:", [c["property_id"] for c in checks], "n/a:", len(na))
