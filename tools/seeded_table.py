"""Regenerate seeded/README.md from seeded/*/meta.json:  /venv/bin/python tools/seeded_table.py"""
import json, os
ROOT = os.path.dirname(os.path.dirname(os.path.abspath(__file__)))
S = os.path.join(ROOT, "seeded")
rows = []
for n in sorted(os.listdir(S)):
    mp = os.path.join(S, n, "meta.json")
    if not os.path.exists(mp):
        continue
    m = json.load(open(mp))
    lr = m.get("last_run") or {}
    runs = lr.get("runs") or []
    caught = [r["cmd"] for r in runs if r["exit"] == 1 and r["violation_lines"]]
    missed = [r["cmd"] for r in runs if not (r["exit"] == 1 and r["violation_lines"])]
    first = next((r["first"][0] for r in runs if r.get("first")), "")
    kind = ""
    if "failure={" in first:
        try:
            kind = json.loads(first.split("failure=", 1)[1] + ("" if first.rstrip().endswith("}") else ""))["kind"]
        except Exception:
            import re
            mm = re.search(r'"kind": "([^"]+)"', first)
            kind = mm.group(1) if mm else ""
    if m.get("neutralised_by") and not caught:
        # a later fix: commit made the change harmless: it breaks nothing any more, there is nothing to catch
        caught, missed, kind = ["(no longer breaks the property: " + m["neutralised_by"].split(":")[0] + ")"], [], "-"
    rows.append((n, m["property"], m.get("where", ""), m.get("breaks", ""), caught, missed, kind, lr.get("repo_head", ""), lr.get("tier", "")))
with open(os.path.join(S, "README.md"), "w") as f:
    f.write("# Seeded property-breaking changes\n\nEach directory holds the change (`patch.diff` for tracked sources, `*.c.diff` for the untracked generated C), "
            "the demonstration program written by the sub-agent and `meta.json`.  None of them is ever committed to `/repo`.  "
            "`tools/seeded_all.py` re-runs them; this table is generated from the `last_run` records.\n\n")
    f.write("| change | property | where | what it breaks / what it needs | caught by | first failure kind | not caught by |\n|---|---|---|---|---|---|---|\n")
    for n, p, w, b, c, mi, k, head, tier in rows:
        f.write("| %s | %s | %s | %s | %s | %s | %s |\n" % (n, p, w, b.replace("|", "/"), "<br>".join(c) or "**nothing**", k, "<br>".join(mi)))
print(len(rows), "rows;", sum(1 for r in rows if r[4]), "caught")
