#!/bin/sh
# tools/thorough_all.sh [checks...] : run thorough tiers one after another from the current directory (meant for `vp run`), one summary line each
cd "$(dirname "$0")/.." || exit 2
OUT=${THOR_OUT:-/var/tmp/thor}
mkdir -p "$OUT/replays"
: > "$OUT/summary.txt"
for p in ${@:-C11 C16 C18 C14 C15 C04 C07 C09 C08 C17 C06 C05 C13 C02 C03 C10 C19 C20 C01 C12}; do
  s=$(date +%s)
  ./check $p thorough > "$OUT/$p.out" 2>&1; rc=$?
  e=$(date +%s)
  echo "$p rc=$rc $((e-s))s $(tail -1 "$OUT/$p.out" | cut -c1-200)" >> "$OUT/summary.txt"
  cp replays/$p-*.json "$OUT/replays/" 2>/dev/null
done
echo ALLDONE >> "$OUT/summary.txt"
