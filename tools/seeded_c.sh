#!/bin/sh
# tools/seeded_c.sh <seeded-dir> <prop> [tier]: like seeded.sh for mutants of the generated C (cencoding.c.diff): patch the untracked
# /repo/fastparquet/cencoding.c, run the check (which rebuilds the shadow .so from the .c), restore the file.
D="$1"; P="$2"; T="${3:-quick}"
C=/repo/fastparquet/cencoding.c
cp "$C" /var/tmp/cencoding.c.orig || exit 2
patch -s "$C" "$D/cencoding.c.diff" || { cp /var/tmp/cencoding.c.orig "$C"; exit 2; }
cd /verif; ./check "$P" "$T" > /var/tmp/seeded-$P.out 2>&1; rc=$?
cp /var/tmp/cencoding.c.orig "$C"; touch -r /var/tmp/cencoding.c.orig "$C"
echo "check rc=$rc violations=$(grep -c '^VIOLATION' /var/tmp/seeded-$P.out)"
grep -A1 '^VIOLATION' /var/tmp/seeded-$P.out | head -6 | cut -c1-400; tail -1 /var/tmp/seeded-$P.out
git -C /verif checkout -- evidence 2>/dev/null
