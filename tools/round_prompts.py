"""tools/round_prompts.py <round> : write /var/tmp/prompt<round>-Cxx.txt for all 20 properties (hint lists every earlier seeded change of the property)."""
import glob, json, os, subprocess, sys
rnd = sys.argv[1]
FOCUS = {
    "10": ("This time PREFER a bug of one of these kinds: (i) a value that is CACHED or computed LAZILY on a handle (statistics, dtypes, categories, "
          "schema helper, row-group file lists, key-value dicts) and becomes stale or is shared when it should not be; (ii) the footer's BOOKKEEPING "
          "numbers (num_rows per row group vs total, total_byte_size, data_page_offset / dictionary_page_offset / file_offset, column order, "
          "num_values vs null_count) going wrong for one layout only (multi-file vs single file, second row group, a column after a nullable or "
          "dictionary-encoded one); (iii) INDEX handling (named / unnamed / multi-level / non-default RangeIndex start+step / index that is also "
          "listed in columns=, index=False reads, write_index=None heuristics); (iv) row groups of ZERO rows or columns that are entirely null "
          "in one row group but not the next. You have about 12 minutes: pick quickly, keep it small. "),
    "9": ("This time PREFER a bug of one of these kinds: (i) a LOOP over several columns / row groups / pages / files in which only the FIRST or the "
          "LAST element (or every element after the first) is handled differently: an off-by-one on the last page, state left over from the previous "
          "column or row group, something computed once outside the loop that should be per element; (ii) a condition on the KIND of a dtype or type "
          "(signed vs unsigned, float32 vs float64, bool, fixed-width vs variable-width bytes, tz-aware vs naive, ordered vs unordered categories) that "
          "takes the wrong branch for ONE kind only; (iii) SPECIAL VALUES in comparisons and ordering (NaN, -0.0, NaT, infinities, empty string vs "
          "missing, non-ASCII and surrogate-free 4-byte UTF-8 text, bytes with embedded NUL, negative timestamps before 1970); (iv) the LESS TRAVELLED "
          "public entry points (ParquetFile.head, .count, .info, iter_row_groups with filters, read_row_group_file, check_categories, "
          "update_file_custom_metadata, merge, metadata_from_many, write_row_groups with sort_key, ParquetFile over a list of paths or with open_with/fs, "
          "write(..., append='overwrite')). "),
    "8": ("This time PREFER a bug of one of these kinds: (i) behaviour that depends on WHO wrote the file or on optional parts of the format being "
          "absent or present (files of other writers, footers without created_by / key-value metadata / statistics / pandas metadata, mixed sets "
          "of files, metadata written by an older version); (ii) pandas-3 specific dtypes and values (the new str dtype, nullable Float32/Float64, "
          "non-nanosecond datetimes and timedeltas, ArrowDtype-free object columns holding mixed None/NaN); (iii) arithmetic BOUNDARIES (values at "
          "the limits of int32/int64/uint64, sizes and counts around 2**15, 2**16, 2**31, offsets beyond 2 GiB handled as numbers not files, "
          "rounding when units are rescaled); (iv) the SECOND use of something (second append, second slice of a slice, re-opened dataset, a "
          "handle used after an operation on it failed). "),
}
PREFER = ("This time PREFER a bug of one of these kinds: (i) an INTERPLAY between two different API features or two different handles on the same "
          "dataset (derived handles: slices, pickles, copies, handles opened from file-like objects or from a list of files; a dataset built by one "
          "operation and then changed by another: merge then append, overwrite then remove, append after key-value update ...); (ii) a RARELY USED "
          "OPTION or parameter form that still is documented (lists / dicts instead of scalars for row_group_offsets, stats, has_nulls, "
          "object_encoding, compression, categories; fixed_text; times; custom open_with/mkdirs; custom_metadata; sort_key / sort_pnames; "
          "index=...; dtypes=...); (iii) a BOUNDARY (sizes around page or buffer limits, counts around powers of two, zero-row / one-row / "
          "all-null inputs, two-digit part numbers); (iv) an ERROR PATH (what is left behind when something raises half-way). "
          "At the END of your final answer add a section 'Pre-existing oddities' listing any behaviour of the UNCHANGED library you came across "
          "that looks like a genuine defect (with a minimal reproducer line), even if unrelated to your change.")
for i in range(1, 21):
    pid = "C%02d" % i
    wt = "/tmp/wt%s-%s" % (rnd, pid)
    earlier = []
    for mp in sorted(glob.glob("/verif/seeded/%s-*/meta.json" % pid)):
        m = json.load(open(mp))
        earlier.append("%s [%s]" % (m.get("breaks", "")[:110], m.get("where", "")))
    prefer = PREFER
    if rnd in FOCUS:
        prefer = FOCUS[rnd] + PREFER[PREFER.index("At the END"):]
    hint = ("NOTE: earlier exercises already produced the changes listed below for this property; do NOT repeat them or close variants. " + prefer +
            " Earlier changes: " + " | ".join(earlier))
    if pid in ("C11", "C12"):
        hint = ("NOTE for this property: it concerns the COMPILED codecs, so the change has to be made in the generated C (fastparquet/cencoding.c or speedups.c; both are "
                "untracked build products, so git diff will NOT show them) and recompiled with the gcc command above (for speedups.c the same command with speedups.c -o "
                "speedups.cpython-312-x86_64-linux-gnu.so). Pristine copies are next to them as cencoding.c.orig / speedups.c.orig: deliver your change as %s/c.diff "
                "produced with: cd %s/fastparquet && diff -u cencoding.c.orig cencoding.c > ../c.diff (likewise for speedups.c). The demo should call the public Python "
                "functions of fastparquet.cencoding / fastparquet.speedups or go through fastparquet.write / ParquetFile.\n" % (wt, wt)) + hint
    out = subprocess.run([sys.executable, "/verif/tools/agent_prompt.py", pid, wt, hint], capture_output=True, text=True, check=True).stdout
    out += "\n\nDo not consult any memory files or notes from other sessions (nothing under /root/.claude); work from this description and the source code only.\n"
    open("/var/tmp/prompt%s-%s.txt" % (rnd, pid), "w").write(out)
print("ok")
