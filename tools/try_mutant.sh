#!/bin/sh
# tools/try_mutant.sh <seeded dir name> : one seeded change against its checks, in a scratch worktree of /repo HEAD (removed afterwards)
W=/tmp/wtm-$$
sh /verif/tools/mkworktree.sh $W >/dev/null
( cd /verif && VF_REPO=$W /venv/bin/python -u tools/seeded_all.py "$1" | cut -c1-${2:-400} )
git -C /repo worktree remove --force $W
