"""Print the prompt for a mutation sub-agent: python3 tools/agent_prompt.py C05 /tmp/wt-C05 [variant-hint]"""
import json, sys
pid, wt = sys.argv[1], sys.argv[2]
hint = sys.argv[3] if len(sys.argv) > 3 else ""
p = [json.loads(l) for l in open("/verif/properties.jsonl") if json.loads(l)["id"] == pid][0]
print(f"""You are helping test a verification harness for the Python library dask/fastparquet (Parquet reader/writer for pandas).
You work ONLY inside your own scratch git worktree of the repository: {wt}
Do not touch /repo or /verif, and do not read anything under /verif.

Environment: run Python as `/venv/bin/python` (3.12, pandas 3, numpy 2; no network, no Cython: `.pyx` edits have NO effect,
edit the Python files under {wt}/fastparquet/ only, or as a last resort the generated C in fastparquet/cencoding.c / speedups.c which you must then
recompile yourself with: cd {wt}/fastparquet && gcc -shared -fPIC -O2 -fno-strict-overflow -DNDEBUG -w -I/root/.pyenv/versions/3.12.1/include/python3.12 -I/venv/lib/python3.12/site-packages/numpy/_core/include cencoding.c -o cencoding.cpython-312-x86_64-linux-gnu.so).
ALWAYS run with the worktree first on the path, e.g.  cd {wt} && PYTHONPATH={wt} /venv/bin/python your_demo.py   (check fastparquet.__file__ points into {wt}).
The existing test suite is run with:  cd {wt} && PYTHONPATH={wt} /venv/bin/python -m pytest -q -p no:cacheprovider --timeout=900 --continue-on-collection-errors -q
On the unchanged tree 346 tests pass and 34 fail (pandas-3 related failures; ignore those). Record the list of passing tests before you change anything.

The semantic property of fastparquet under study:

  TITLE: {p['title']}
  STATEMENT: {p['statement']}
  QUANTIFIED OVER: {p['quantifier']['text']}
  CODE ANCHORS (where the behaviour lives): {json.dumps(p['anchors']['mechanism'])}

YOUR TASK: produce ONE realistic change (a plausible bug a maintainer could introduce in a refactor or optimisation - not sabotage that
ordinary use would expose at once) to the library source in your worktree that BREAKS this property, while
  (a) the library still imports and every test that passed before still passes (verify: same set of passing tests), and
  (b) the breakage needs something specific to manifest: a particular multi-step sequence of operations, an unusual-but-legal input or option
      combination, a boundary size, a particular interleaving/fault point, or two cooperating edits that each look fine alone.
      It must NOT show up on the simplest default usage (e.g. a plain small write+read with default options must still work).
{hint}
Deliverables, all inside {wt}:
  1. the source change itself, left UNCOMMITTED in the worktree (so that `git -C {wt} diff` shows exactly the change; do not commit);
  2. {wt}/demo_{pid}.py : a small stand-alone program (uses only fastparquet/pandas/numpy/stdlib, writes only under a tempfile.mkdtemp dir)
     that exits 0 on the unchanged library and exits 1 (printing what went wrong) with your change applied. Verify both directions yourself
     (to flip between unchanged and changed tree use: `git diff > /tmp/my.patch && git checkout -- .` and then `git apply /tmp/my.patch`; do NOT use `git stash`: the stash is shared with other worktrees).
  3. In your final answer report: the diff, what exactly is needed for the bug to manifest, the commands you ran and their observed results
     (test-suite pass counts before/after, demo exit codes before/after).
Keep the diff small (a few lines). Do not add new files to the library. Do not modify the tests.""")
