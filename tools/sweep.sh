#!/bin/sh
# tools/sweep.sh <tier> <seeds...> : run every registered check for each seed, print one line per run
T="$1"; shift
cd /verif
for s in "$@"; do
  for p in $(/venv/bin/python -c "import json;print(' '.join(c['property_id'] for c in json.load(open('MANIFEST.json'))['checks']))"); do
    VERIF_SEED=$s ./check $p $T > /var/tmp/sweep-$p-$s.out 2>&1; rc=$?
    echo "seed=$s $p rc=$rc $(tail -1 /var/tmp/sweep-$p-$s.out | cut -c1-150)"
  done
done
git -C /verif checkout -- evidence 2>/dev/null
