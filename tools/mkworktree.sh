#!/bin/sh
# tools/mkworktree.sh <dir>  : scratch git worktree of /repo HEAD with the untracked build products copied in
set -e
D="$1"
git -C /repo worktree add --detach "$D" HEAD >/dev/null 2>&1
for f in cencoding.c speedups.c cencoding.cpython-312-x86_64-linux-gnu.so speedups.cpython-312-x86_64-linux-gnu.so _version.py; do
  cp /repo/fastparquet/$f "$D/fastparquet/$f"
done
echo "$D"
