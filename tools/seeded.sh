#!/bin/sh
# tools/seeded.sh <seeded-dir> <prop> [tier] : apply a seeded patch to /repo, run the check, undo the patch.
D="$1"; P="$2"; T="${3:-quick}"
cd /repo || exit 2
git diff --quiet || { echo "/repo has uncommitted changes"; exit 2; }
git apply "$D/patch.diff" || exit 2
cd /verif
./check "$P" "$T" > /var/tmp/seeded-$P.out 2>&1; rc=$?
git -C /repo checkout -- .
echo "check rc=$rc violations=$(grep -c '^VIOLATION' /var/tmp/seeded-$P.out)"
grep -A1 '^VIOLATION' /var/tmp/seeded-$P.out | head -${4:-6} | cut -c1-400
tail -1 /var/tmp/seeded-$P.out
git -C /verif checkout -- evidence 2>/dev/null
exit 0
