"""tools/asbuilt_table.py : rewrite the 'checks as built' table of DESIGN.md (9.6) from evidence/*.json (quick tier) and the summary of the last
thorough sweep (/var/tmp/thor/summary.txt, if present); the last column is kept from the file / extended by ADD below."""
import json, os, re
ROOT = os.path.dirname(os.path.dirname(os.path.abspath(__file__)))
ADD = {
 "C01": "second/millisecond timedeltas, negative-step range indexes, categoricals without categories and with boolean labels, offset lists that do not name row 0, categorical row indexes (with missing entries), columns named *-catdef, codec specs without type",
 "C02": "files of datasets with a history (two appends through one handle, removal with renumbering); isAdjustedToUTC of every timestamp column against what is stored",
 "C03": "pandas metadata asking for a finer time resolution (PM/), empty dictionary pages (E/), a fastparquet append to another writer's file (AP/), BYTE_ARRAY decimals, statistics without null_count",
 "C04": "statistics after an append through the handle and of sliced handles, fixed_text columns, orderable JSON lists",
 "C05": "partition columns whose name ends in a data column's name, statistics in min_value/max_value only, value collections as tuple / set / frozenset / array, NaN among listed values",
 "C06": "one selection list object reused by all reads of a case, partition columns as the chosen index",
 "C07": "appends through a kept handle, which must then read what a fresh open reads; coarser time units in appended batches; multi-indexed datasets stored in slices of one frame (MI/)",
 "C08": "datasets with two-digit part numbers appended to (MA/), text keys that look percent-escaped",
 "C09": "timestamp / float / boolean keys and key columns of different numeric dtypes under overwrite; removals of row groups picked on another handle; datasets in another fsspec file system (FS/)",
 "C10": "merge given handles, unverified merge of >= 3 files decoded through _metadata, footers with repeated keys and a key without value",
 "C11": "two length-prefixed streams on one output",
 "C13": "one handle across write_row_groups / remove_row_groups with the same filters (KH/), constants finer than the column's time unit (TU/), value collections other than lists",
 "C14": "piece handles re-used after open/merge, type-parameter mismatches (tz, width), sets of files of two writers (MW/), directories named with a common prefix, hive sub-datasets by path / handle / merge (SD/), relative paths (RP/)",
 "C15": "dictionary fallback inside nested chunks (NF/), two-file datasets with shifted chunk positions (NX/), other writers' group names (NL/), null counts on nested chunks, columns named key / value",
 "C16": "updates naming unchanged keys, updates on derived handles, the caller's dict after write",
 "C17": "reads with a dtypes mapping, handles that edited their dataset (new categories, first nulls, no pandas metadata), nested columns before flat ones (XN/), predictions that cannot hold the column's missing values, foreign partly-dictionary categoricals (FC/), handles opened with dtypes=, file sets with columns in another order (CO/)",
 "C18": "datasets with removed row groups (GP/), appends from iterables that fail (IT/), int32 object overflow (I32/), refused removals (RM/), sort_key that raises (SK/), bare directories without _metadata (NM/)",
 "C19": "appends through a kept handle, followed by a fault-free append on it",
 "C20": "statistics property and sliced statistics as operations, copy as an operation, handles on one shared file object (FO/), nested files (NS/), part writers with differing category counts against a per-part reference",
}
thor = {}
p = "/var/tmp/thor/summary.txt"
if os.path.exists(p):
    for l in open(p):
        m = re.match(r"(C\d\d) rc=(\d+) (\d+)s .*?held on (\d+) cases", l)
        if m:
            thor[m.group(1)] = "%s / %s" % (m.group(4), m.group(3))
d = open(os.path.join(ROOT, "DESIGN.md")).read()
lines = d.split("\n")
out = []
in_96 = False     # only the table under "### 9.6" is rewritten (the section-5 summary has rows of the same shape)
for l in lines:
    if l.startswith("### 9.6"):
        in_96 = True
    elif l.startswith("#"):
        in_96 = False
    m = in_96 and re.match(r"\| (C\d\d) \| ([^|]*) \| ([^|]*) \| (.*) \|$", l)
    if m:
        cid = m.group(1)
        e = json.load(open(os.path.join(ROOT, "evidence", cid + ".json")))
        cov = e["coverage"]
        q = "%s / %s / %d" % (cov.get("evaluations"), cov.get("distinct_nontrivial"), round(e.get("wall_s", 0)))
        last = m.group(4)
        if cid in ADD and ADD[cid] not in last:
            last = (last + "; " if last.strip() not in ("-", "") else "") + ADD[cid]
        l = "| %s | %s | %s | %s |" % (cid, q, thor.get(cid, m.group(3).strip()), last)
    out.append(l)
open(os.path.join(ROOT, "DESIGN.md"), "w").write("\n".join(out))
print("table rewritten; thorough rows from summary:", sorted(thor))
