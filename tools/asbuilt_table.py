"""tools/asbuilt_table.py : rewrite the 'checks as built' table of DESIGN.md (9.6) from evidence/*.json (quick tier) and the summary of the last
thorough sweep (/var/tmp/thor/summary.txt, if present); the last column is kept from the file / extended by ADD below."""
import json, os, re
ROOT = os.path.dirname(os.path.dirname(os.path.abspath(__file__)))
ADD = {
 "C01": "second/millisecond timedeltas, negative-step range indexes, categoricals without categories and with boolean labels, offset lists that do not name row 0",
 "C02": "files of datasets with a history (two appends through one handle, removal with renumbering)",
 "C03": "pandas metadata asking for a finer time resolution (PM/), empty dictionary pages (E/), a fastparquet append to another writer's file (AP/), BYTE_ARRAY decimals, statistics without null_count",
 "C04": "statistics after an append through the handle and of sliced handles, fixed_text columns, orderable JSON lists",
 "C05": "partition columns whose name ends in a data column's name",
 "C06": "one selection list object reused by all reads of a case, partition columns as the chosen index",
 "C07": "appends through a kept handle, which must then read what a fresh open reads",
 "C08": "datasets with two-digit part numbers appended to (MA/), text keys that look percent-escaped",
 "C09": "timestamp / float / boolean keys and key columns of different numeric dtypes under overwrite",
 "C10": "merge given handles, unverified merge of >= 3 files decoded through _metadata, footers with repeated keys and a key without value",
 "C11": "two length-prefixed streams on one output",
 "C13": "one handle across write_row_groups / remove_row_groups with the same filters (KH/)",
 "C14": "piece handles re-used after open/merge, type-parameter mismatches (tz, width), sets of files of two writers (MW/)",
 "C15": "dictionary fallback inside nested chunks (NF/), two-file datasets with shifted chunk positions (NX/)",
 "C16": "updates naming unchanged keys, updates on derived handles, the caller's dict after write",
 "C17": "reads with a dtypes mapping, handles that edited their dataset (new categories, first nulls, no pandas metadata), nested columns before flat ones (XN/), predictions that cannot hold the column's missing values",
 "C18": "datasets with removed row groups (GP/), appends from iterables that fail (IT/)",
 "C19": "appends through a kept handle, followed by a fault-free append on it",
 "C20": "statistics property and sliced statistics as operations, copy as an operation, handles on one shared file object (FO/)",
}
thor = {}
p = "/var/tmp/thor/summary.txt"
if os.path.exists(p):
    for l in open(p):
        m = re.match(r"(C\d\d) rc=(\d+) (\d+)s .*?held on (\d+) cases", l)
        if m:
            thor[m.group(1)] = "%s / %s" % (m.group(4), m.group(3))
d = open(os.path.join(ROOT, "DESIGN.md")).read()
lines = d.split("\n")
out = []
for l in lines:
    m = re.match(r"\| (C\d\d) \| ([^|]*) \| ([^|]*) \| (.*) \|$", l)
    if m:
        cid = m.group(1)
        e = json.load(open(os.path.join(ROOT, "evidence", cid + ".json")))
        cov = e["coverage"]
        q = "%s / %s / %d" % (cov.get("evaluations"), cov.get("distinct_nontrivial"), round(e.get("wall_s", 0)))
        last = m.group(4)
        if cid in ADD and ADD[cid] not in last:
            last = (last + "; " if last.strip() not in ("-", "") else "") + ADD[cid]
        l = "| %s | %s | %s | %s |" % (cid, q, thor.get(cid, m.group(3).strip()), last)
    out.append(l)
open(os.path.join(ROOT, "DESIGN.md"), "w").write("\n".join(out))
print("table rewritten; thorough rows from summary:", sorted(thor))
