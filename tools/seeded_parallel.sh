#!/bin/sh
# tools/seeded_parallel.sh <N> <file with seeded dir names> [tag] : run tools/seeded_all.py over N scratch worktrees of /repo HEAD in parallel
# (each worker patches its OWN worktree: VF_REPO); logs in /var/tmp/seedpar-<i>.log; the worktrees are removed at the end
N=$1; LIST=$2; TAG=${3:-}
i=0
while [ $i -lt $N ]; do
  W=/tmp/seedwt$TAG-$i
  git -C /repo worktree remove --force $W >/dev/null 2>&1
  sh /verif/tools/mkworktree.sh $W >/dev/null
  awk -v n=$N -v k=$i 'NR % n == k' $LIST > /var/tmp/seedpar$TAG-$i.txt
  ( cd /verif && VF_REPO=$W /venv/bin/python -u tools/seeded_all.py $(cat /var/tmp/seedpar$TAG-$i.txt | tr '\n' ' ') > /var/tmp/seedpar$TAG-$i.log 2>&1; git -C /repo worktree remove --force $W ) &
  i=$((i+1))
done
wait
echo ALLDONE
